//go:build verif

// C17 — address normalisation is a consistent equivalence; conversions round-trip.
// Law monitors over generated inputs; see DESIGN.md section 5, C17.
package c17

import (
	"fmt"
	"sort"
	"strings"
	"testing"
	"unicode"
	"unicode/utf8"

	"github.com/foxcpp/maddy/framework/address"
	"github.com/foxcpp/maddy/framework/dns"
	"golang.org/x/text/unicode/norm"
	"verifkit/prng"
	"verifkit/rep"
)

// ---- independent punycode encoder (RFC 3492), used to build A-labels by construction ----

func punyEncode(s string) string {
	const (
		base, tmin, tmax, skew, damp = 36, 1, 26, 38, 700
		initialBias, initialN        = 72, 128
	)
	digit := func(d int) byte {
		if d < 26 {
			return byte('a' + d)
		}
		return byte('0' + d - 26)
	}
	adapt := func(delta, numPoints int, first bool) int {
		if first {
			delta /= damp
		} else {
			delta /= 2
		}
		delta += delta / numPoints
		k := 0
		for delta > ((base-tmin)*tmax)/2 {
			delta /= base - tmin
			k += base
		}
		return k + (base-tmin+1)*delta/(delta+skew)
	}
	rs := []rune(s)
	var out []byte
	for _, r := range rs {
		if r < 0x80 {
			out = append(out, byte(r))
		}
	}
	b := len(out)
	h := b
	if b > 0 {
		out = append(out, '-')
	}
	n, delta, bias := initialN, 0, initialBias
	for h < len(rs) {
		m := rune(0x7fffffff)
		for _, r := range rs {
			if int(r) >= n && r < m {
				m = r
			}
		}
		delta += (int(m) - n) * (h + 1)
		n = int(m)
		for _, r := range rs {
			if int(r) < n {
				delta++
			}
			if int(r) == n {
				q := delta
				for k := base; ; k += base {
					t := k - bias
					if t < tmin {
						t = tmin
					} else if t > tmax {
						t = tmax
					}
					if q < t {
						break
					}
					out = append(out, digit(t+(q-t)%(base-t)))
					q = (q - t) / (base - t)
				}
				out = append(out, digit(q))
				bias = adapt(delta, h+1, h == b)
				delta = 0
				h++
			}
		}
		delta++
		n++
	}
	return string(out)
}

func isASCII(s string) bool {
	for i := 0; i < len(s); i++ {
		if s[i] >= 0x80 {
			return false
		}
	}
	return true
}

func aLabel(u string) string {
	if isASCII(u) {
		return u
	}
	return "xn--" + punyEncode(u)
}

// ---- alphabet ----

// lower-case, NFC letters from several scripts that are PVALID in IDNA2008 and
// whose simple upper/lower mapping round-trips (checked at start-up).
var idnLetters = []rune("абвгдежзиклмнопрстуфхцчшщыэюяёїєґ" + "αβγδεζηθικλμνξοπρστυφχψωάέήίόύώ" + "äöüéèêëàâáãåçñóòôõúùûíìîýÿøæœšžčřěůőű" + "ąćęłńśźż")
var caselessLetters = []rune("日本語例え漢字中文한국어テスト" + "ßςǰ")
var asciiLower = []rune("abcdefghijklmnopqrstuvwxyz")

// lower-case forms of cased characters whose cased counterpart is NOT in general category Lu:
// title-case digraphs (Lt), Greek letters with ypogegrammeni whose capital is Lt, small Roman
// numerals (Nl) and circled letters (So). unicode.IsUpper is false for all their counterparts, so a
// normaliser that looks for "an upper-case letter" before lower-casing never sees them. Local parts
// only: IDNA disallows or maps most of them in domains.
var nonLuCasedLower = []rune("\u01c6\u01c9\u01cc\u01f3" + "\u1f80\u1f87\u1f90\u1fa0\u1fb3\u1fc3\u1ff3" + "\u2170\u2173\u217b\u217f" + "\u24d0\u24d4\u24e9")
var caselessOrNonLu = append(append([]rune{}, caselessLetters...), nonLuCasedLower...)
var digits = []rune("0123456789")

var hostileTokens = []string{
	"a", "b", "z", "A", "Z", "j", "J", "i", "I", "k", "K", "s", "S", "0", "9", "-", "_", "+", "=",
	"@", "@", ".", ".", "\"", "\\", "(", ")", "<", ">", "[", "]", ":", ";", ",", " ", "\t", "\r", "\n", "\x00", "\x7f",
	"́", "̌", "̇", "̣", "̈", "ͅ",
	"İ", "ı", "ß", "ẞ", "ς", "σ", "Σ", "ǰ", "K", "Å", "ﬁ", "Å", "å", "Å",
	"Ａ", "ａ", "＠", "．", "。", "｡",
	"xn--", "XN--", "Xn--", "xn--e1aybc", "XN--E1AYBC", "xn--bcher-kva", "XN--BCHER-KVA", "xn--a", "xn--zz-zz-", "xn--é",
	"\u0080", "\u0081", "\u009f", " ", "­", "‍", "‌", "�", "\xff", "\x80", "\xc3", "\xe2\x82",
	"postmaster", "POSTMASTER", "example", "EXAMPLE", "org", "тест", "ТЕСТ", "é", "é", "É", "É",
}

func tokenFeature(tok string) string {
	switch {
	case strings.HasPrefix(strings.ToLower(tok), "xn--"):
		if tok != strings.ToLower(tok) {
			return "ACE"
		}
		return "ace"
	case !utf8.ValidString(tok):
		return "bad8"
	case isASCII(tok):
		if len(tok) == 1 {
			c := tok[0]
			switch {
			case c >= 'a' && c <= 'z', c >= '0' && c <= '9':
				return "al"
			case c >= 'A' && c <= 'Z':
				return "AU"
			case c == '@':
				return "at"
			case c == '.':
				return "dot"
			case c == '"' || c == '\\':
				return "q"
			case c < 0x20 || c == 0x7f:
				return "ctl"
			default:
				return "sp"
			}
		}
		return "w"
	}
	r, _ := utf8.DecodeRuneInString(tok)
	switch {
	case unicode.Is(unicode.Mn, r):
		return "mn"
	case r >= 0xff00 && r <= 0xffef, r == 0x3002:
		return "fw"
	case r >= 0x80 && r <= 0xa0:
		return "c1"
	case unicode.IsUpper(r):
		return "UU"
	default:
		return "u"
	}
}

func genHostile(p *prng.R) (string, string) {
	n := p.Range(0, 9)
	var sb strings.Builder
	feats := map[string]bool{}
	// bias towards something address-shaped half of the time
	shaped := p.Bool()
	at := -1
	if shaped && n > 1 {
		at = p.Range(1, n-1)
	}
	for i := 0; i < n; i++ {
		if i == at {
			sb.WriteString("@")
			feats["at"] = true
			continue
		}
		t := prng.Pick(p, hostileTokens)
		sb.WriteString(t)
		feats[tokenFeature(t)] = true
	}
	return sb.String(), featKey(feats)
}

func featKey(f map[string]bool) string {
	ks := make([]string, 0, len(f))
	for k := range f {
		ks = append(ks, k)
	}
	sort.Strings(ks)
	return strings.Join(ks, "+")
}

// ---- valid addresses with classes known by construction ----

type validAddr struct {
	local  string   // base local part: NFC, lower case where cased
	quoted bool     // local part uses quoted-string syntax (then kept verbatim in variants except case/NF of letters outside ASCII specials)
	labels []string // base labels: NFC lower-case U-labels or ASCII
	dot    bool     // the domain is written with a trailing dot (root label) in every spelling; group F only
	feat   string
}

func genLabel(p *prng.R, feats map[string]bool) string {
	switch p.Intn(5) {
	case 0, 1: // ASCII LDH
		n := p.Range(1, 8)
		rs := make([]rune, 0, n)
		for i := 0; i < n; i++ {
			if i > 0 && i < n-1 && p.Chance(1, 8) && rs[len(rs)-1] != '-' && i != 2 && i != 3 {
				rs = append(rs, '-')
			} else if p.Chance(1, 5) {
				rs = append(rs, prng.Pick(p, digits))
			} else {
				rs = append(rs, prng.Pick(p, asciiLower))
			}
		}
		feats["ldh"] = true
		return string(rs)
	case 2: // cased IDN letters
		n := p.Range(1, 6)
		rs := make([]rune, 0, n)
		for i := 0; i < n; i++ {
			if p.Chance(1, 4) {
				rs = append(rs, prng.Pick(p, asciiLower))
			} else {
				rs = append(rs, prng.Pick(p, idnLetters))
			}
		}
		feats["idn"] = true
		return norm.NFC.String(string(rs))
	case 3: // caseless scripts
		n := p.Range(1, 4)
		rs := make([]rune, 0, n)
		for i := 0; i < n; i++ {
			rs = append(rs, prng.Pick(p, caselessLetters))
		}
		feats["caseless"] = true
		return norm.NFC.String(string(rs))
	default: // letter followed by combining mark that composes (or not) under NFC
		base := prng.Pick(p, []rune("aeioucnszjkg"))
		mark := prng.Pick(p, []rune{0x301, 0x30c, 0x308, 0x323, 0x307})
		if base == 'i' && mark == 0x307 {
			mark = 0x301 // dotted I: simple and full case mappings disagree; not judged (DESIGN.md C17)
		}
		s := string([]rune{base, mark})
		if p.Bool() {
			s += string(prng.Pick(p, asciiLower))
		}
		feats["comb"] = true
		return norm.NFC.String(s)
	}
}

func genValid(p *prng.R) validAddr {
	feats := map[string]bool{}
	var v validAddr
	nl := p.Range(1, 3)
	for i := 0; i < nl; i++ {
		v.labels = append(v.labels, genLabel(p, feats))
	}
	switch p.Intn(6) {
	case 0, 1: // ASCII dot-atom
		n := p.Range(1, 8)
		rs := make([]rune, 0, n)
		for i := 0; i < n; i++ {
			if i > 0 && i < n-1 && rs[len(rs)-1] != '.' && p.Chance(1, 6) {
				rs = append(rs, '.')
			} else if p.Chance(1, 8) {
				rs = append(rs, prng.Pick(p, []rune("!#$%&'*+-/=?^_`{|}~")))
			} else if p.Chance(1, 6) {
				rs = append(rs, prng.Pick(p, digits))
			} else {
				rs = append(rs, prng.Pick(p, asciiLower))
			}
		}
		v.local = string(rs)
		feats["Lascii"] = true
	case 2, 3: // UTF-8 atom
		n := p.Range(1, 6)
		rs := make([]rune, 0, n)
		for i := 0; i < n; i++ {
			switch p.Intn(4) {
			case 0:
				rs = append(rs, prng.Pick(p, asciiLower))
			case 1:
				rs = append(rs, prng.Pick(p, caselessOrNonLu))
			default:
				rs = append(rs, prng.Pick(p, idnLetters))
			}
		}
		v.local = norm.NFC.String(string(rs))
		feats["Lutf8"] = true
		if nonLuFlip(v.local, nil) != v.local {
			feats["LnonLu"] = true
		}
	case 4: // letter + combining mark
		base := prng.Pick(p, []rune("aeioucnszjkg"))
		mark := prng.Pick(p, []rune{0x301, 0x30c, 0x308, 0x323, 0x307})
		if base == 'i' && mark == 0x307 {
			mark = 0x301
		}
		v.local = norm.NFC.String(string([]rune{base, mark}) + string(prng.Pick(p, asciiLower)))
		feats["Lcomb"] = true
	default: // quoted string
		n := p.Range(1, 6)
		var sb strings.Builder
		sb.WriteByte('"')
		for i := 0; i < n; i++ {
			switch p.Intn(6) {
			case 0:
				sb.WriteString(`\"`)
			case 1:
				sb.WriteString(`\\`)
			case 2:
				sb.WriteString(prng.Pick(p, []string{" ", "@", "(", ")", ",", ":", ";", "<", ">", "[", "]", "."}))
			case 3:
				sb.WriteRune(prng.Pick(p, idnLetters))
			default:
				sb.WriteRune(prng.Pick(p, asciiLower))
			}
		}
		sb.WriteByte('"')
		v.local = norm.NFC.String(sb.String())
		v.quoted = true
		feats["Lquoted"] = true
	}
	v.feat = featKey(feats)
	return v
}

// letters whose case mapping interacts with normalisation (precomposed forms with or without a
// cased counterpart, singleton decompositions, special casing), in both cases, plus combining marks.
var specialLetters = []string{"İ", "I", "i", "ı", "̇", "J", "j", "ǰ", "̌", "ẞ", "ß", "Ǆ", "ǅ", "ǆ", "ΐ", "ΰ", "ι", "̈", "́", "ͅ", "ᾳ", "ᾼ", "Α", "α",
	"K", "k", "K", "Å", "Å", "å", "̊", "Ω", "Ω", "ω", "Ḋ", "ḋ", "D", "d", "ẛ", "ſ", "ﬁ", "Ǎ", "ǎ", "A", "a", "é", "É", "e", "E"}

func genSpecial(p *prng.R) string {
	part := func() string {
		var sb strings.Builder
		for sb.Len() == 0 || unicode.Is(unicode.Mn, []rune(sb.String())[0]) {
			sb.Reset()
			n := p.Range(1, 4)
			for i := 0; i < n; i++ {
				sb.WriteString(prng.Pick(p, specialLetters))
			}
		}
		return sb.String()
	}
	dom := part()
	if p.Bool() {
		dom += "." + string(prng.Pick(p, asciiLower)) + string(prng.Pick(p, asciiLower))
	} else {
		dom = "example." + dom
	}
	return part() + "@" + dom
}

// caseFlip upper-cases runes selected by the generator when the simple mapping round-trips.
func caseFlip(p *prng.R, s string, all bool) string {
	rs := []rune(s)
	for i, r := range rs {
		u := unicode.ToUpper(r)
		if u != r && unicode.ToLower(u) == r && (all || p.Bool()) {
			// the upper-case form must itself be stable under NFC together with its neighbours;
			// class membership is then "differs only by simple case mapping".
			rs[i] = u
		}
	}
	return string(rs)
}

// nonLuFlip replaces (all, or the ones selected by p) runes by their title-case counterpart when
// that counterpart is not in category Lu and maps back under unicode.ToLower; every other rune -
// in particular every letter with an ordinary capital - stays as it is, so the result contains no
// Lu letter that the base did not contain.
func nonLuFlip(s string, p *prng.R) string {
	rs := []rune(s)
	for i, r := range rs {
		t := unicode.ToTitle(r)
		if t != r && !unicode.IsUpper(t) && unicode.ToLower(t) == r && norm.NFC.IsNormalString(string(t)) && (p == nil || p.Bool()) {
			rs[i] = t
		}
	}
	return string(rs)
}

func (v validAddr) base() string { return v.local + "@" + strings.Join(v.labels, ".") + v.root() }

func (v validAddr) root() string {
	if v.dot {
		return "."
	}
	return ""
}

// singletonFlip replaces k, å and ω by the Kelvin, Angstrom and Ohm signs (U+212A, U+212B, U+2126).
// Each sign has a singleton canonical decomposition to the ordinary capital letter, so the result is
// a Unicode-normalisation variant (NFC gives K, Å, Ω) of the upper-case spelling of the letter; neither
// NFC nor NFD of any other spelling ever produces the signs, which is why they are a kind of their own.
func singletonFlip(s string) string {
	return strings.NewReplacer("k", "\u212a", "å", "\u212b", "ω", "\u2126").Replace(s)
}

// spellings returns variants that are, by construction, spellings of the same address.
func (v validAddr) spellings(p *prng.R) (out []string, kinds []string) {
	uDom := strings.Join(v.labels, ".") + v.root()
	al := make([]string, len(v.labels))
	for i, l := range v.labels {
		al[i] = aLabel(l)
	}
	aDom := strings.Join(al, ".") + v.root()
	add := func(kind, l, d string) {
		out = append(out, l+"@"+d)
		kinds = append(kinds, kind)
	}
	add("base", v.local, uDom)
	add("dom-upper", v.local, caseFlip(p, uDom, true))
	add("dom-mixed", v.local, caseFlip(p, uDom, false))
	add("dom-nfd", v.local, norm.NFD.String(uDom))
	add("dom-upper-nfd", v.local, norm.NFD.String(caseFlip(p, uDom, true)))
	add("dom-alabel", v.local, aDom)
	add("dom-ALABEL", v.local, strings.ToUpper(aDom))
	add("dom-AlAbEl", v.local, caseFlip(p, aDom, false))
	add("local-upper", caseFlip(p, v.local, true), uDom)
	add("local-mixed", caseFlip(p, v.local, false), uDom)
	add("local-nfd", norm.NFD.String(v.local), uDom)
	add("local-upper-nfd", norm.NFD.String(caseFlip(p, v.local, true)), uDom)
	add("dom-nfd-then-upper", v.local, caseFlip(p, norm.NFD.String(uDom), true))
	add("local-nfd-then-upper", caseFlip(p, norm.NFD.String(v.local), true), uDom)
	add("local-nfd-then-mixed", caseFlip(p, norm.NFD.String(v.local), false), uDom)
	add("both", norm.NFD.String(caseFlip(p, v.local, false)), strings.ToUpper(aDom))
	if f := nonLuFlip(v.local, nil); f != v.local {
		// cased counterparts outside Lu only; drawn from a stream of its own so that the spellings above stay as they were
		q := prng.New(uint64(len(v.local))*1315423911+uint64(len(uDom)), uint64([]rune(v.local)[0]), "c17-nonlu")
		add("local-nonlu-cased", f, uDom)
		add("local-nonlu-cased-mixed", nonLuFlip(v.local, q), uDom)
		add("local-nonlu-cased-nfd", norm.NFD.String(f), uDom)
	}
	// compatibility signs with a singleton decomposition (no PRNG draw: every k / å / ω is replaced)
	if f := singletonFlip(v.local); f != v.local {
		add("local-singleton-sign", f, uDom)
	}
	if f := singletonFlip(uDom); f != uDom {
		add("dom-singleton-sign", v.local, f)
	}
	return
}

func witnessFeature(ss ...string) string {
	f := map[string]bool{}
	for _, s := range ss {
		low := strings.ToLower(s)
		if strings.Contains(low, "xn--") && s != low && strings.Contains(strings.ToLower(s), "xn--") {
			// upper-case ACE prefix or body
			for _, lab := range strings.FieldsFunc(s, func(r rune) bool { return r == '.' || r == '@' }) {
				if strings.HasPrefix(strings.ToLower(lab), "xn--") && lab != strings.ToLower(lab) {
					f["upper-ace"] = true
				}
			}
		}
		for _, r := range s {
			switch {
			case unicode.Is(unicode.Mn, r):
				f["combining"] = true
			case r >= 0x80 && r < 0xa0:
				f["c1"] = true
			case r == 0x80:
				f["u0080"] = true
			}
		}
		if norm.NFC.String(s) != s {
			f["non-nfc"] = true
		}
		if !utf8.ValidString(s) {
			f["bad-utf8"] = true
		}
	}
	if len(f) == 0 {
		return "plain"
	}
	return featKey(f)
}

func TestVerif(t *testing.T) {
	r := rep.Open("C17")
	defer r.Close()

	// sanity of the harness' own tables (a failure here is a harness bug, never a verdict)
	for _, l := range idnLetters {
		u := unicode.ToUpper(l)
		if u == l || unicode.ToLower(u) != l || norm.NFC.String(string(l)) != string(l) {
			t.Fatalf("harness table: %q is not a round-tripping cased NFC letter", l)
		}
	}
	if punyEncode("тест") != "e1aybc" || punyEncode("bücher") != "bcher-kva" || punyEncode("例え") != "r8jz45g" {
		t.Fatalf("harness punycode encoder is wrong")
	}

	postmasterGroup(t, r)
	concurrentGroup(t, r)
	fakeGroup(t, r)

	batches := r.N(800, 20000)
	const per = 1000
	for b := 0; b < batches; b++ {
		r.Run(b, fmt.Sprintf("batch-%d", b), func(c *rep.Case) {
			p := prng.New(r.Seed(), uint64(b), "c17")
			shapes := map[string]struct{}{}
			var evals int64
			law := func(name, feat string) {
				evals++
				shapes[name+"/"+feat] = struct{}{}
			}
			fail := func(lawName, feat, what string, w map[string]any) {
				c.Violation("law/"+lawName+"/"+feat, what, w)
			}
			var prevA, prevB string
			for i := 0; i < per; i++ {
				if i%2 == 0 {
					// ---------- hostile strings: crash-freedom, Equal equivalence, IsASCII ----------
					s, feat := genHostile(p)
					k1, _ := address.ForLookup(s)
					address.CleanDomain(s)
					address.Split(s)
					address.ToASCII(s)
					address.ToUnicode(s)
					address.Valid(s)
					address.ValidMailboxName(s)
					address.ValidDomain(s)
					address.PRECIS(s)
					address.PRECISFold(s)
					address.UnquoteMbox(s)
					address.FQDNDomain(s)
					dk1, _ := dns.ForLookup(s)
					dns.SelectIDNA(true, s)
					dns.SelectIDNA(false, s)
					dns.FQDN(s)
					law("nopanic", feat)

					if got, want := address.IsASCII(s), isASCII(s); got != want {
						fail("isascii", witnessFeature(s), fmt.Sprintf("IsASCII(%q) = %v but all-bytes-below-0x80 = %v", s, got, want), map[string]any{"s": s})
					}
					law("isascii", feat)

					if !address.Equal(s, s) || !dns.Equal(s, s) {
						fail("equal-reflexive", witnessFeature(s), fmt.Sprintf("Equal(%q,%q) is false", s, s), map[string]any{"s": s})
					}
					law("equal-reflexive", feat)

					// pair / triple laws against previous strings and a mutated copy
					s2 := s
					switch p.Intn(4) {
					case 0:
						s2 = strings.ToUpper(s)
					case 1:
						s2 = norm.NFD.String(s)
					case 2:
						s2 = prevA
					case 3:
						s2 = strings.ToLower(s)
					}
					k2, _ := address.ForLookup(s2)
					dk2, _ := dns.ForLookup(s2)
					e12, e21 := address.Equal(s, s2), address.Equal(s2, s)
					if e12 != e21 {
						fail("equal-symmetric", witnessFeature(s, s2), fmt.Sprintf("Equal(%q,%q)=%v but Equal(%q,%q)=%v", s, s2, e12, s2, s, e21), map[string]any{"a": s, "b": s2})
					}
					law("equal-symmetric", feat)
					if e12 != (k1 == k2) {
						fail("equal-iff-key", witnessFeature(s, s2), fmt.Sprintf("Equal(%q,%q)=%v but keys %q vs %q", s, s2, e12, k1, k2), map[string]any{"a": s, "b": s2, "ka": k1, "kb": k2})
					}
					law("equal-iff-key", feat)
					if d12 := dns.Equal(s, s2); d12 != (dk1 == dk2) || d12 != dns.Equal(s2, s) {
						fail("dns-equal-iff-key", witnessFeature(s, s2), fmt.Sprintf("dns.Equal(%q,%q)=%v, keys %q vs %q", s, s2, d12, dk1, dk2), map[string]any{"a": s, "b": s2})
					}
					law("dns-equal-iff-key", feat)
					s3 := prevB
					if address.Equal(s, s2) && address.Equal(s2, s3) && !address.Equal(s, s3) {
						fail("equal-transitive", witnessFeature(s, s2, s3), fmt.Sprintf("Equal(%q,%q) and Equal(%q,%q) but not Equal(%q,%q)", s, s2, s2, s3, s, s3), map[string]any{"a": s, "b": s2, "c": s3})
					}
					law("equal-transitive", feat)
					prevB = prevA
					prevA = s2

					// quoting round trip on any valid UTF-8 non-empty string
					if s != "" && utf8.ValidString(s) {
						q := address.QuoteMbox(s)
						back, err := address.UnquoteMbox(q)
						if err != nil || back != s {
							fail("quote-roundtrip", witnessFeature(s), fmt.Sprintf("UnquoteMbox(QuoteMbox(%q)=%q) = %q, %v", s, q, back, err), map[string]any{"s": s, "quoted": q, "back": back})
						}
						law("quote-roundtrip", feat)
					}
					continue
				}

				// ---------- normalisation variants of addresses built from case-sensitive letters ----------
				// NFC(x) and NFD(x) are Unicode-normalisation variants of one address by definition
				// (no case mapping involved), so they must share one key whatever letters x contains.
				if i%8 == 1 {
					x := genSpecial(p)
					if address.Valid(x) {
						c, d := norm.NFC.String(x), norm.NFD.String(x)
						kc, e1 := address.ForLookup(c)
						kd, e2 := address.ForLookup(d)
						kx, e3 := address.ForLookup(x)
						if e1 != nil || e2 != nil || e3 != nil || kc != kd || kc != kx {
							fail("nf-variants-one-key", witnessFeature(x), fmt.Sprintf("NFC and NFD spellings of %q have keys %q (err %v) and %q (err %v); as given: %q (err %v)", x, kc, e1, kd, e2, kx, e3), map[string]any{"x": x, "nfc": c, "nfd": d, "key_nfc": kc, "key_nfd": kd, "key_x": kx})
						}
						if !address.Equal(c, d) || !address.Equal(d, c) {
							fail("nf-variants-equal", witnessFeature(x), fmt.Sprintf("Equal(NFC, NFD) is false for %q", x), map[string]any{"x": x})
						}
						cc, e4 := address.CleanDomain(c)
						cd, e5 := address.CleanDomain(d)
						_, dc, _ := address.Split(cc)
						_, dd, _ := address.Split(cd)
						if e4 != nil || e5 != nil || dc != dd {
							fail("nf-variants-cleandomain", witnessFeature(x), fmt.Sprintf("CleanDomain of the NFC and NFD spellings of %q give domains %q and %q (err %v, %v)", x, dc, dd, e4, e5), map[string]any{"x": x})
						}
						_, xdom, _ := address.Split(x)
						k1, _ := dns.ForLookup(norm.NFC.String(xdom))
						k2, _ := dns.ForLookup(norm.NFD.String(xdom))
						if k1 != k2 || !dns.Equal(norm.NFC.String(xdom), norm.NFD.String(xdom)) {
							fail("dns-nf-variants-one-key", witnessFeature(xdom), fmt.Sprintf("dns.ForLookup of the NFC and NFD spellings of %q: %q vs %q", xdom, k1, k2), map[string]any{"domain": xdom})
						}
						law("nf-variants", "special")
						r.Count("special_letter_addresses", 1)
					}
					continue
				}

				// ---------- valid addresses ----------
				judgeValid(r, genValid(p), p, law, fail, i < 8 && b == 0)
			}
			ss := make([]string, 0, len(shapes))
			for s := range shapes {
				ss = append(ss, s)
			}
			r.Eval(evals, ss...)
			c.Done("batch", false)
		})
	}
}

// judgeValid evaluates every law about valid addresses on one generated address and its spellings.
func judgeValid(r *rep.Reporter, v validAddr, p *prng.R, law func(name, feat string), fail func(lawName, feat, what string, w map[string]any), sample bool) {
	base := v.base()
	feat := v.feat
	if !address.Valid(base) {
		r.Count("generator_addresses_rejected_by_Valid", 1)
		return
	}
	r.Count("valid_addresses", 1)
	if v.dot {
		r.Count("trailing_dot_addresses", 1)
	}
	key, err := address.ForLookup(base)
	if err != nil {
		fail("forlookup-error-on-valid", witnessFeature(base), fmt.Sprintf("ForLookup(%q) fails: %v", base, err), map[string]any{"addr": base})
		return
	}
	sp, kinds := v.spellings(p)
	for j, s := range sp {
		k, err := address.ForLookup(s)
		if err != nil || k != key {
			fail("one-key-per-class/"+kinds[j], witnessFeature(s), fmt.Sprintf("spelling %q (%s) of %q has key %q (err %v), base key %q", s, kinds[j], base, k, err, key), map[string]any{"base": base, "spelling": s, "kind": kinds[j], "key": k, "base_key": key})
		}
		law("one-key-per-class/"+kinds[j], feat)
		if strings.HasPrefix(kinds[j], "local-nonlu-cased") {
			r.Count("nonlu_cased_spellings_checked", 1)
		}
		if strings.HasSuffix(kinds[j], "-singleton-sign") {
			r.Count("singleton_sign_spellings_checked", 1)
		}
		if !address.Equal(s, base) || !address.Equal(base, s) {
			fail("equal-within-class/"+kinds[j], witnessFeature(s), fmt.Sprintf("Equal(%q,%q) is false for spellings of one address", s, base), map[string]any{"base": base, "spelling": s})
		}
		law("equal-within-class/"+kinds[j], feat)
		// idempotence of the key on every spelling
		kk, err2 := address.ForLookup(k)
		if err == nil && (err2 != nil || kk != k) {
			fail("forlookup-idempotent", witnessFeature(s), fmt.Sprintf("ForLookup(%q)=%q but ForLookup of that = %q (err %v)", s, k, kk, err2), map[string]any{"addr": s, "once": k, "twice": kk})
		}
		law("forlookup-idempotent/"+kinds[j], feat)
		cd, err := address.CleanDomain(s)
		if err != nil {
			fail("cleandomain-error-on-valid", witnessFeature(s), fmt.Sprintf("CleanDomain(%q) fails: %v", s, err), map[string]any{"addr": s})
		} else {
			cd2, err2 := address.CleanDomain(cd)
			if err2 != nil || cd2 != cd {
				fail("cleandomain-idempotent", witnessFeature(s), fmt.Sprintf("CleanDomain(%q)=%q, again = %q (err %v)", s, cd, cd2, err2), map[string]any{"addr": s, "once": cd, "twice": cd2})
			}
			// domain part of all spellings cleans to one domain; local part untouched
			mb, dom, _ := address.Split(cd)
			mb0, _, _ := address.Split(s)
			_, dom0, _ := address.Split(func() string { x, _ := address.CleanDomain(base); return x }())
			if mb != mb0 || dom != dom0 {
				fail("cleandomain-class/"+kinds[j], witnessFeature(s), fmt.Sprintf("CleanDomain(%q)=%q; expected local part %q kept and domain %q", s, cd, mb0, dom0), map[string]any{"addr": s, "got": cd})
			}
		}
		law("cleandomain/"+kinds[j], feat)
		// split / join
		mb, dom, err := address.Split(s)
		if err != nil || mb+"@"+dom != s || strings.Contains(dom, "@") {
			fail("split-join", witnessFeature(s), fmt.Sprintf("Split(%q) = %q, %q, %v", s, mb, dom, err), map[string]any{"addr": s})
		}
		law("split-join/"+kinds[j], feat)
		// domain-level laws
		dk, derr := dns.ForLookup(dom)
		_, kdom, _ := address.Split(key)
		if derr != nil || dk != kdom {
			fail("dns-one-key-per-class/"+kinds[j], witnessFeature(dom), fmt.Sprintf("dns.ForLookup(%q)=%q (err %v), expected %q", dom, dk, derr, kdom), map[string]any{"domain": dom, "key": dk, "want": kdom})
		} else if dk2, e := dns.ForLookup(dk); e != nil || dk2 != dk {
			fail("dns-forlookup-idempotent", witnessFeature(dom), fmt.Sprintf("dns.ForLookup not idempotent on %q: %q then %q", dom, dk, dk2), map[string]any{"domain": dom})
		}
		law("dns-key/"+kinds[j], feat)
	}
	// ASCII <-> Unicode round trips on the canonical spellings
	uForm := sp[0]
	aForm := sp[5]
	if isASCII(v.local) {
		a, err := address.ToASCII(uForm)
		if err != nil || a != aForm {
			fail("toascii", witnessFeature(uForm), fmt.Sprintf("ToASCII(%q) = %q, %v; want %q", uForm, a, err, aForm), map[string]any{"addr": uForm, "got": a, "want": aForm})
		}
		u, err := address.ToUnicode(aForm)
		if err != nil || u != uForm {
			fail("tounicode", witnessFeature(aForm), fmt.Sprintf("ToUnicode(%q) = %q, %v; want %q", aForm, u, err, uForm), map[string]any{"addr": aForm, "got": u, "want": uForm})
		}
		if err == nil {
			back, err := address.ToASCII(u)
			if err != nil || back != aForm {
				fail("ascii-unicode-roundtrip", witnessFeature(aForm), fmt.Sprintf("ToASCII(ToUnicode(%q)) = %q, %v", aForm, back, err), map[string]any{"addr": aForm})
			}
		}
		law("ascii-unicode-roundtrip", feat)
	} else {
		if _, err := address.ToASCII(uForm); err == nil {
			fail("toascii-accepts-unicode-local", witnessFeature(uForm), fmt.Sprintf("ToASCII(%q) succeeded although the local part is not ASCII", uForm), map[string]any{"addr": uForm})
		}
		law("toascii-refuses-unicode-local", feat)
	}
	// quoting round trip on the unquoted local part
	if v.quoted {
		raw, err := address.UnquoteMbox(v.local)
		if err != nil {
			fail("unquote-valid", witnessFeature(v.local), fmt.Sprintf("UnquoteMbox(%q) fails: %v", v.local, err), map[string]any{"local": v.local})
		} else if back, err := address.UnquoteMbox(address.QuoteMbox(raw)); err != nil || back != raw {
			fail("quote-roundtrip", witnessFeature(raw), fmt.Sprintf("UnquoteMbox(QuoteMbox(%q)) = %q, %v", raw, back, err), map[string]any{"raw": raw})
		}
		law("quote-roundtrip-valid", feat)
	}
	if sample {
		r.Sample(map[string]any{"base": base, "spellings": sp, "key": key})
	}
			}
