//go:build verif

// Two small groups next to the batches of c17_test.go:
//
//	group P (index 5_000_000): the one valid address without a domain, "postmaster" in any letter
//	        case - every conversion must leave it alone and all spellings share one key;
//	group K (index 6_000_000..): the same laws evaluated CONCURRENTLY: N goroutines compute
//	        keys / comparisons / conversions for a fixed set of addresses and must get exactly
//	        what a single goroutine gets (the helpers are called from every SMTP session at
//	        once; shared mutable state inside them - a cached transformer, a memo table -
//	        shows as wrong keys, Equal disagreeing with the keys, or panics).
package c17

import (
	"fmt"
	"strings"
	"sync"
	"testing"

	"github.com/foxcpp/maddy/framework/address"
	"github.com/foxcpp/maddy/framework/dns"
	"golang.org/x/text/unicode/norm"
	"verifkit/prng"
	"verifkit/rep"
)

const (
	groupPostmaster = 5_000_000
	groupConcurrent = 6_000_000
)

func postmasterGroup(t *testing.T, r *rep.Reporter) {
	r.Run(groupPostmaster, "postmaster", func(c *rep.Case) {
		spell := []string{"postmaster", "Postmaster", "POSTMASTER", "postMASTER", "pOsTmAsTeR"}
		var key0 string
		for i, s := range spell {
			if !address.Valid(s) {
				// (not a law of the statement by itself, but the precondition "valid address" of the others)
				c.Inconclusive(fmt.Sprintf("address.Valid(%q) is false: the domain-less postmaster forms are not judged", s))
				c.Done("postmaster", false)
				return
			}
			mb, dom, err := address.Split(s)
			joined := mb
			if dom != "" {
				joined += "@" + dom
			}
			if err != nil || joined != s {
				c.Violation("law/split-join/domainless-postmaster", fmt.Sprintf("Split(%q) = %q, %q, %v: does not join back to the input", s, mb, dom, err), map[string]any{"addr": s})
			}
			if cd, err := address.CleanDomain(s); err != nil || cd != s {
				c.Violation("law/cleandomain-class/domainless-postmaster", fmt.Sprintf("CleanDomain(%q) = %q, %v: the local part must be left alone", s, cd, err), map[string]any{"addr": s})
			}
			a, err := address.ToASCII(s)
			if err != nil || a != s {
				c.Violation("law/ascii-unicode-roundtrip/domainless-postmaster", fmt.Sprintf("ToASCII(%q) = %q, %v", s, a, err), map[string]any{"addr": s})
			}
			u, err := address.ToUnicode(s)
			if err != nil || u != s {
				c.Violation("law/ascii-unicode-roundtrip/domainless-postmaster", fmt.Sprintf("ToUnicode(%q) = %q, %v", s, u, err), map[string]any{"addr": s})
			}
			k, err := address.ForLookup(s)
			if err != nil {
				c.Violation("law/forlookup-valid/domainless-postmaster", fmt.Sprintf("ForLookup(%q) fails: %v", s, err), map[string]any{"addr": s})
			}
			if k2, _ := address.ForLookup(k); k2 != k {
				c.Violation("law/forlookup-idempotent/domainless-postmaster", fmt.Sprintf("ForLookup(%q) = %q, again %q", s, k, k2), map[string]any{"addr": s})
			}
			if i == 0 {
				key0 = k
			} else if k != key0 {
				c.Violation("law/one-key-per-class/domainless-postmaster", fmt.Sprintf("ForLookup(%q) = %q but ForLookup(%q) = %q", s, k, spell[0], key0), map[string]any{"addr": s})
			}
			if !address.Equal(s, spell[0]) {
				c.Violation("law/equal-iff-key/domainless-postmaster", fmt.Sprintf("Equal(%q, %q) is false", s, spell[0]), map[string]any{"addr": s})
			}
			r.Count("postmaster_spellings_checked", 1)
		}
		// Spellings that match "postmaster" only under Unicode simple case FOLDING: U+017F (long s) folds to
		// "s"; it is a lower-case letter, so lower-casing leaves it alone. (The Kelvin sign U+212A folds to
		// "k", which "postmaster" does not contain; it is covered as a spelling of k in the batches.) Whether
		// such a string is an address at all is maddy's decision, not the statement's: a spelling that
		// address.Valid rejects is skipped. A spelling that Valid accepts without a domain IS, by Split's own
		// contract, the one address that has no domain - a letter-case variant of "postmaster" - and must
		// get its key and compare equal to it.
		for _, s := range postmasterFoldSpellings() {
			r.Count("postmaster_fold_spellings_seen", 1)
			mb, dom, err := address.Split(s)
			if !address.Valid(s) || err != nil || dom != "" {
				r.Count("postmaster_fold_spellings_not_domainless_valid", 1)
				continue
			}
			if mb != s {
				c.Violation("law/split-join/domainless-postmaster", fmt.Sprintf("Split(%q) = %q, %q: does not join back to the input", s, mb, dom), map[string]any{"addr": s})
			}
			if cd, err := address.CleanDomain(s); err != nil || cd != s {
				c.Violation("law/cleandomain-class/domainless-postmaster", fmt.Sprintf("CleanDomain(%q) = %q, %v: the local part must be left alone", s, cd, err), map[string]any{"addr": s})
			}
			k, err := address.ForLookup(s)
			if err != nil {
				continue // refused: nothing to compare
			}
			if k2, err2 := address.ForLookup(k); k2 != k || err2 != nil {
				c.Violation("law/forlookup-idempotent/domainless-postmaster", fmt.Sprintf("ForLookup(%q) = %q, again %q (err %v)", s, k, k2, err2), map[string]any{"addr": s})
			}
			if k != key0 {
				c.Violation("law/one-key-per-class/domainless-postmaster-case-folded", fmt.Sprintf("Valid(%q) is true and Split reports it as the domain-less postmaster address, but ForLookup(%q) = %q while ForLookup(%q) = %q", s, s, k, spell[0], key0), map[string]any{"addr": s, "key": k, "postmaster_key": key0})
			}
			if !address.Equal(s, spell[0]) || !address.Equal(spell[0], s) {
				c.Violation("law/equal-within-class/domainless-postmaster-case-folded", fmt.Sprintf("Valid(%q) is true and Split reports it as the domain-less postmaster address, but Equal(%q, %q) is false", s, s, spell[0]), map[string]any{"addr": s})
			}
		}
		r.Sample(map[string]any{"group": "domain-less postmaster", "spellings": spell, "case_folded_spellings": postmasterFoldSpellings()})
		c.Done("postmaster", true)
	})
}

// postmasterFoldSpellings: every way to write one or both "s" of postmaster as U+017F, in lower, upper and
// mixed case of the other letters.
func postmasterFoldSpellings() []string {
	var out []string
	for _, base := range []string{"postmaster", "POSTMASTER", "PostMaster"} {
		for mask := 1; mask < 4; mask++ {
			rs := []rune(base)
			n := 0
			for i, c := range rs {
				if c == 's' || c == 'S' {
					if mask&(1<<n) != 0 {
						rs[i] = 0x17f
					}
					n++
				}
			}
			out = append(out, string(rs))
		}
	}
	return out
}

type concRef struct {
	in               string
	key, clean, dkey string
	ascii, uni       string
	kerr, cerr, derr bool
}

func concurrentGroup(t *testing.T, r *rep.Reporter) {
	n := r.N(6, 60)
	for g := 0; g < n; g++ {
		g := g
		r.Run(groupConcurrent+g, fmt.Sprintf("concurrent-%d", g), func(c *rep.Case) {
			p := prng.New(r.Seed(), uint64(g), "c17-concurrent")
			// inputs: spellings of a few valid addresses (classes known by construction) + hostile strings
			var ins []string
			var classOf []int
			for a := 0; a < 6; a++ {
				v := genValid(p)
				sp, _ := v.spellings(p)
				for _, s := range sp {
					ins = append(ins, s)
					classOf = append(classOf, a)
				}
			}
			for h := 0; h < 12; h++ {
				s, _ := genHostile(p)
				ins = append(ins, s)
				classOf = append(classOf, -1)
			}
			// sequential reference, computed by this goroutine alone
			ref := make([]concRef, len(ins))
			for i, s := range ins {
				x := concRef{in: s}
				var err error
				x.key, err = address.ForLookup(s)
				x.kerr = err != nil
				x.clean, err = address.CleanDomain(s)
				x.cerr = err != nil
				_, dom, _ := address.Split(s)
				x.dkey, err = dns.ForLookup(dom)
				x.derr = err != nil
				x.ascii, _ = address.ToASCII(s)
				x.uni, _ = address.ToUnicode(s)
				ref[i] = x
			}
			const workers = 8
			rounds := 400
			var mu sync.Mutex
			type bad struct{ sig, what string }
			var found []bad
			report := func(sig, what string) {
				mu.Lock()
				if len(found) < 5 {
					found = append(found, bad{sig, what})
				}
				mu.Unlock()
			}
			var wg sync.WaitGroup
			start := make(chan struct{})
			for w := 0; w < workers; w++ {
				w := w
				wg.Add(1)
				go func() {
					defer wg.Done()
					defer func() {
						if e := recover(); e != nil {
							report("concurrent/panic", fmt.Sprintf("panic while %d goroutines evaluate the helpers concurrently: %v", workers, e))
						}
					}()
					<-start
					for round := 0; round < rounds; round++ {
						for j := range ins {
							i := (j*7 + w*13 + round) % len(ins)
							x := ref[i]
							if k, err := address.ForLookup(x.in); k != x.key || (err != nil) != x.kerr {
								report("concurrent/forlookup-differs-from-sequential", fmt.Sprintf("ForLookup(%q) = %q (err %v) under concurrency, %q alone", x.in, k, err, x.key))
							}
							if cd, err := address.CleanDomain(x.in); cd != x.clean || (err != nil) != x.cerr {
								report("concurrent/cleandomain-differs-from-sequential", fmt.Sprintf("CleanDomain(%q) = %q (err %v) under concurrency, %q alone", x.in, cd, err, x.clean))
							}
							_, dom, _ := address.Split(x.in)
							if dk, err := dns.ForLookup(dom); dk != x.dkey || (err != nil) != x.derr {
								report("concurrent/dns-forlookup-differs-from-sequential", fmt.Sprintf("dns.ForLookup(%q) = %q (err %v) under concurrency, %q alone", dom, dk, err, x.dkey))
							}
							o := ref[(i+1+w)%len(ins)]
							if eq := address.Equal(x.in, o.in); eq != (x.key == o.key) {
								report("concurrent/equal-iff-key", fmt.Sprintf("Equal(%q, %q) = %v under concurrency but the keys are %q and %q", x.in, o.in, eq, x.key, o.key))
							}
							if a, _ := address.ToASCII(x.in); a != x.ascii {
								report("concurrent/toascii-differs-from-sequential", fmt.Sprintf("ToASCII(%q) = %q under concurrency, %q alone", x.in, a, x.ascii))
							}
							if u, _ := address.ToUnicode(x.in); u != x.uni {
								report("concurrent/tounicode-differs-from-sequential", fmt.Sprintf("ToUnicode(%q) = %q under concurrency, %q alone", x.in, u, x.uni))
							}
						}
					}
				}()
			}
			close(start)
			wg.Wait()
			r.Count("concurrent_law_evaluations", int64(workers*rounds*len(ins)*6))
			// class sanity of the reference itself (sequential; also judged by the batches)
			for i := range ins {
				if classOf[i] >= 0 && strings.ContainsRune(ref[i].key, 0) {
					report("concurrent/key-with-nul", fmt.Sprintf("key of %q contains NUL", ins[i]))
				}
			}
			for _, b := range found {
				c.Violation(b.sig, b.what, map[string]any{"workers": workers, "inputs": len(ins), "nfc_of_first_input": norm.NFC.String(ins[0])})
			}
			if g == 0 {
				r.Sample(map[string]any{"group": "concurrent", "workers": workers, "rounds": rounds, "first_inputs": ins[:4]})
			}
			c.Done(fmt.Sprintf("concurrent/%d-inputs", len(ins)), true)
		})
	}
}
