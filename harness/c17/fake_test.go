//go:build verif

// Group F (index 7_000_000..): addresses that maddy's own Valid() accepts although a domain label
// only LOOKS like an A-label, and domains written with a trailing dot.
//
// The valid-address generator of c17_test.go builds A-labels with the harness' punycode encoder from
// IDNA-valid U-labels only, so every label with the ACE prefix it ever produced was a genuine A-label.
// Nothing in address.Valid demands that: the Punycode-only profile accepts every label whose part
// after "xn--" decodes. This group builds such labels by construction:
//
//	ascii            "xn--" + punycode(all-ASCII LDH string)        = xn--example-      (decodes to a plain ASCII name)
//	alabel-hyphen    genuine A-label + "-"                          = xn--bcher-kva-    (everything before the last hyphen is literal)
//	nested           "xn--" + punycode(A-label), depth 1..3         = xn--xn--e1aybc-   (decodes to a string that is itself an A-label)
//	nested-ascii     "xn--" + punycode(fake label of kind ascii)    = xn--xn--example-- (decodes to a fake A-label)
//	ace-unicode      "xn--" + punycode("xn--" + U-label)            (decodes to a non-ASCII string carrying the ACE prefix)
//	empty            "xn--"                                         (decodes to the empty label)
//	upper-unicode    "xn--" + punycode(upper-cased U-label)         (non-canonical: not the A-label of a lower-case U-label)
//	nfd-unicode      "xn--" + punycode(NFD of a U-label)            (non-canonical: not the A-label of an NFC U-label)
//	garbled          genuine A-label with one digit of the extended part replaced / appended
//
// each of them with the ACE prefix and/or the rest in upper / mixed case, one or two per domain next to
// ordinary labels, with and without a trailing dot.
//
// Judged - on every spelling that address.Valid accepts and for which the normaliser reports no error -
// is exactly what the statement says about valid addresses without knowing any class by construction:
// ForLookup, CleanDomain and dns.ForLookup are idempotent (applying them to their own result succeeds
// and changes nothing), Equal coincides with equality of keys, the ASCII letter-case spellings of one
// domain share one key, CleanDomain leaves the local part alone and Split/join round-trips.
// NOT judged: which key a fake A-label gets (kept, decoded - i.e. aliased to another name - or refused
// with an error are all compatible with the statement as long as the result is a fixed point), and the
// ASCII/Unicode conversion of fake A-labels (the statement quantifies conversions over IDNA-valid
// labels; a label that is not an A-label has no Unicode form to round-trip through).
//
// Every fourth input is an ordinary generated valid address with a trailing dot on the domain in all its
// spellings, put through every law of the batches (judgeValid). Whether "d." and "d" share a key is not
// judged: the root dot is not among the variants the statement lists.
package c17

import (
	"fmt"
	"strings"
	"testing"

	"github.com/foxcpp/maddy/framework/address"
	"github.com/foxcpp/maddy/framework/dns"
	"golang.org/x/text/unicode/norm"
	"verifkit/prng"
	"verifkit/rep"
)

const groupFake = 7_000_000

var fakeKinds = []string{"ascii", "alabel-hyphen", "nested", "nested-ascii", "ace-unicode", "empty", "upper-unicode", "nfd-unicode", "garbled"}

func genASCIILabel(p *prng.R) string {
	n := p.Range(1, 8)
	rs := make([]rune, 0, n)
	for i := 0; i < n; i++ {
		switch {
		case i > 0 && i < n-1 && rs[len(rs)-1] != '-' && p.Chance(1, 6):
			rs = append(rs, '-')
		case p.Chance(1, 5):
			rs = append(rs, prng.Pick(p, digits))
		default:
			rs = append(rs, prng.Pick(p, asciiLower))
		}
	}
	return string(rs)
}

func genUnicodeLabel(p *prng.R) string {
	for try := 0; try < 8; try++ {
		if l := genLabel(p, map[string]bool{}); !isASCII(l) {
			return l
		}
	}
	return "тест"
}

// genFakeLabel returns a lower-case label with the ACE prefix of the drawn kind.
func genFakeLabel(p *prng.R) (label, kind string) {
	kind = prng.Pick(p, fakeKinds)
	switch kind {
	case "ascii":
		label = "xn--" + punyEncode(genASCIILabel(p))
	case "alabel-hyphen":
		label = aLabel(genUnicodeLabel(p)) + "-"
	case "nested":
		label = aLabel(genUnicodeLabel(p))
		for d := p.Range(1, 3); d > 0; d-- {
			label = "xn--" + punyEncode(label)
		}
	case "nested-ascii":
		label = "xn--" + punyEncode("xn--"+punyEncode(genASCIILabel(p)))
	case "ace-unicode":
		label = "xn--" + punyEncode("xn--"+genUnicodeLabel(p))
	case "empty":
		label = "xn--"
	case "upper-unicode":
		label = "xn--" + punyEncode(strings.ToUpper(genUnicodeLabel(p)))
	case "nfd-unicode":
		label = "xn--" + punyEncode(norm.NFD.String(genUnicodeLabel(p)))
	default: // garbled
		label = aLabel(genUnicodeLabel(p))
		d := string(prng.Pick(p, []rune("abz019")))
		if p.Bool() {
			label += d
		} else {
			at := p.Range(len(label)-2, len(label)-1)
			label = label[:at] + d + label[at+1:]
		}
	}
	return strings.ToLower(label), kind
}

func asciiUpper(s string, p *prng.R) string {
	b := []byte(s)
	for i, c := range b {
		if c >= 'a' && c <= 'z' && (p == nil || p.Bool()) {
			b[i] = c - ('a' - 'A')
		}
	}
	return string(b)
}

// resultClass names what a normaliser's result looks like; it is the cause class of a fixed-point failure.
func resultClass(dom string, errAgain error) string {
	if errAgain != nil {
		return "result-refused-when-normalised-again"
	}
	if i := strings.LastIndexByte(dom, '@'); i >= 0 {
		dom = dom[i+1:]
	}
	ace, empty := false, false
	for _, l := range strings.Split(dom, ".") {
		if l == "" {
			empty = true
		}
		if len(l) >= 4 && strings.EqualFold(l[:4], "xn--") {
			ace = true
		}
	}
	switch {
	case ace:
		return "result-carries-ace-prefix"
	case empty:
		return "result-has-empty-label"
	}
	return "other"
}

func fakeGroup(t *testing.T, r *rep.Reporter) {
	n := r.N(8, 800)
	const per = 500
	for g := 0; g < n; g++ {
		g := g
		r.Run(groupFake+g, fmt.Sprintf("fake-alabels-%d", g), func(c *rep.Case) {
			p := prng.New(r.Seed(), uint64(g), "c17-fake")
			shapes := map[string]struct{}{}
			var evals int64
			law := func(name, feat string) {
				evals++
				shapes[name+"/"+feat] = struct{}{}
			}
			fail := func(lawName, feat, what string, w map[string]any) {
				c.Violation("law/"+lawName+"/"+feat, what, w)
			}
			for i := 0; i < per; i++ {
				if i%4 == 3 {
					v := genValid(p)
					v.dot = true
					v.feat += "+rootdot"
					judgeValid(r, v, p, law, fail, false)
					continue
				}
				// ---- a domain with one or two fake / non-canonical A-labels ----
				v := genValid(p)
				labels := append([]string{}, v.labels...)
				kinds := map[string]bool{}
				for k := p.Range(1, 2); k > 0; k-- {
					l, kind := genFakeLabel(p)
					kinds[kind] = true
					at := p.Range(0, len(labels))
					labels = append(labels[:at], append([]string{l}, labels[at:]...)...)
				}
				dom := strings.Join(labels, ".")
				feat := "fake:" + featKey(kinds)
				if p.Chance(1, 4) {
					dom += "."
					feat += "+rootdot"
				}
				spell := []string{dom, asciiUpper(dom, nil), strings.Replace(dom, "xn--", "XN--", -1), asciiUpper(dom, p)}
				var keys []string
				allOK := true
				for _, d := range spell {
					s := v.local + "@" + d
					if !address.Valid(s) {
						r.Count("fake_alabel_spellings_rejected_by_Valid", 1)
						allOK = false
						continue
					}
					r.Count("fake_alabel_spellings_valid", 1)
					for kind := range kinds {
						r.Count("fake_alabel_valid/"+kind, 1)
					}
					// split / join
					mb, sd, err := address.Split(s)
					if err != nil || mb+"@"+sd != s || mb != v.local {
						fail("split-join", "fake-alabel", fmt.Sprintf("Split(%q) = %q, %q, %v", s, mb, sd, err), map[string]any{"addr": s})
					}
					law("split-join", feat)
					// lookup key: a fixed point
					k, err := address.ForLookup(s)
					if err != nil {
						r.Count("fake_alabel_spellings_refused_by_ForLookup", 1)
						allOK = false
					} else {
						keys = append(keys, k)
						k2, err2 := address.ForLookup(k)
						if err2 != nil || k2 != k {
							fail("forlookup-idempotent", "fake-alabel/"+resultClass(k, err2), fmt.Sprintf("Valid(%q) is true and ForLookup gives %q, but ForLookup(%q) = %q (err %v): the key is not a fixed point", s, k, k, k2, err2), map[string]any{"addr": s, "once": k, "twice": k2, "err_twice": fmt.Sprint(err2)})
						}
						law("forlookup-idempotent", feat)
						if eq := address.Equal(s, k); eq != (k == k2) || eq != address.Equal(k, s) {
							fail("equal-iff-key", "fake-alabel", fmt.Sprintf("Equal(%q,%q)=%v but the keys are %q and %q", s, k, eq, k, k2), map[string]any{"a": s, "b": k})
						}
						law("equal-iff-key", feat)
						r.Count("fake_alabel_fixed_point_checks", 1)
					}
					// domain cleaning: a fixed point, local part untouched
					if cd, err := address.CleanDomain(s); err == nil {
						cd2, err2 := address.CleanDomain(cd)
						if err2 != nil || cd2 != cd {
							fail("cleandomain-idempotent", "fake-alabel/"+resultClass(cd, err2), fmt.Sprintf("Valid(%q) is true and CleanDomain gives %q, but CleanDomain(%q) = %q (err %v)", s, cd, cd, cd2, err2), map[string]any{"addr": s, "once": cd, "twice": cd2, "err_twice": fmt.Sprint(err2)})
						}
						if !strings.HasPrefix(cd, v.local+"@") {
							fail("cleandomain-class", "fake-alabel", fmt.Sprintf("CleanDomain(%q) = %q: local part %q not kept", s, cd, v.local), map[string]any{"addr": s, "got": cd})
						}
						law("cleandomain-idempotent", feat)
					}
					// domain key: a fixed point, dns.Equal agrees with it
					if dk, err := dns.ForLookup(d); err == nil {
						dk2, err2 := dns.ForLookup(dk)
						if err2 != nil || dk2 != dk {
							fail("dns-forlookup-idempotent", "fake-alabel/"+resultClass(dk, err2), fmt.Sprintf("dns.ForLookup(%q) = %q, but dns.ForLookup(%q) = %q (err %v)", d, dk, dk, dk2, err2), map[string]any{"domain": d, "once": dk, "twice": dk2, "err_twice": fmt.Sprint(err2)})
						}
						if eq := dns.Equal(d, dk); eq != (dk == dk2) {
							fail("dns-equal-iff-key", "fake-alabel", fmt.Sprintf("dns.Equal(%q,%q)=%v but the keys are %q and %q", d, dk, eq, dk, dk2), map[string]any{"a": d, "b": dk})
						}
						law("dns-forlookup-idempotent", feat)
					}
				}
				// the ASCII letter-case spellings of one domain: one key, all Equal
				if allOK {
					for j := 1; j < len(keys); j++ {
						if keys[j] != keys[0] {
							fail("one-key-per-class/dom-ascii-case", "fake-alabel", fmt.Sprintf("%q and its ASCII letter-case spelling %q have keys %q and %q", v.local+"@"+spell[0], v.local+"@"+spell[j], keys[0], keys[j]), map[string]any{"a": spell[0], "b": spell[j]})
						}
						if !address.Equal(v.local+"@"+spell[0], v.local+"@"+spell[j]) {
							fail("equal-within-class/dom-ascii-case", "fake-alabel", fmt.Sprintf("Equal is false for %q and its ASCII letter-case spelling %q", v.local+"@"+spell[0], v.local+"@"+spell[j]), map[string]any{"a": spell[0], "b": spell[j]})
						}
						law("one-key-per-class/dom-ascii-case", feat)
					}
				}
				if g == 0 && i < 3 {
					r.Sample(map[string]any{"group": "fake A-labels", "local": v.local, "domain_spellings": spell, "kinds": featKey(kinds), "keys": keys})
				}
			}
			ss := make([]string, 0, len(shapes))
			for s := range shapes {
				ss = append(ss, s)
			}
			r.Eval(evals, ss...)
			c.Done("fake-alabels", false)
		})
	}
}
