//go:build verif

// C18 — failure reports are well-formed, name the right recipients, cannot loop.
//
// A real queue (export shim) is fed generated messages; its delivery target and
// its bounce target are mx.ScriptTarget instances. Every message handed to the
// bounce target is parsed with the Go standard library only (mx.ParseReport)
// and compared with what the event log of the main target says happened.
// See DESIGN.md section 5, C18 and NOTES.md in this directory.
package c18

import (
	"bufio"
	"bytes"
	"context"
	"errors"
	"fmt"
	"net"
	"os"
	"path/filepath"
	"regexp"
	"sort"
	"strings"
	"sync"
	"sync/atomic"
	"testing"
	"time"
	"unicode/utf8"

	"github.com/emersion/go-message/textproto"
	"github.com/emersion/go-smtp"
	"github.com/foxcpp/maddy/framework/buffer"
	"github.com/foxcpp/maddy/framework/exterrors"
	mlog "github.com/foxcpp/maddy/framework/log"
	"github.com/foxcpp/maddy/framework/module"
	_ "github.com/foxcpp/maddy/internal/modify"
	_ "github.com/foxcpp/maddy/internal/table"
	"github.com/foxcpp/maddy/internal/target/queue"
	"github.com/foxcpp/maddy/internal/zzverif/mx"
	"golang.org/x/net/idna"
	"golang.org/x/text/unicode/norm"
	"verifkit/prng"
	"verifkit/rep"
)

// ---------------------------------------------------------------- addresses

type mailbox struct {
	id    int
	local string
	domU  string
	domA  string
	// kind of the local part: plain | utf8 | nfd | compat | case | quoted
	kind string
}

func (m mailbox) u() string { return m.local + "@" + m.domU }
func (m mailbox) a() string { return m.local + "@" + m.domA }
func (m mailbox) asciiLocal() bool {
	for i := 0; i < len(m.local); i++ {
		if m.local[i] >= 0x80 {
			return false
		}
	}
	return true
}
func (m mailbox) idn() bool { return m.domU != m.domA }

var asciiLocals = []string{"a-very-long-local-part-that-goes-on-and-on-0123456789-0123456789-x", "alice", "bob.smith", "carol+tag", "d_e-f", "Postmaster", "x", "info", "no-reply", "user.name+ext", "q1w2e3"}
var utf8Locals = []string{"юзер", "用户", "josé", "δοκιμή", "mañana.ñ"}
var asciiDomains = []string{"a-rather-long-domain-name.subdomain.of.another.example.org", "example.org", "mail.example.net", "sub.domain.test", "a.example", "example.com", "mx1.corp.example"}
var idnDomains = []string{"тест.example", "bücher.example", "例え.jp", "müller.example.org", "почта.рф", "ñandú.example.net"}

// Local parts whose spelling an over-eager normaliser changes. The local part
// is opaque to everybody but the final host (RFC 5321 2.3.11, RFC 6531 3.2:
// no normalisation, no case folding by a relay), so a report has to show it
// octet for octet.
//
// nfdLocals: not in NFC (decomposed letters, a singleton that NFC replaces,
// combining marks in non-canonical order, conjoining Hangul jamo). Written
// with escapes on purpose: an editor must not "repair" them.
var nfdLocals = []string{
	"re\u0301sume\u0301",      // e + COMBINING ACUTE
	"jose\u0301.garci\u0301a", // two decomposed letters
	"\u212bngstro\u0308m",     // ANGSTROM SIGN (singleton, NFC -> U+00C5) + o + DIAERESIS
	"q\u0307\u0323x",          // marks not in canonical order (NFC swaps them)
	"\u1112\u1161\u11ab",      // Hangul jamo (NFC composes one syllable)
	"\u0438\u0306van",         // Cyrillic i + BREVE (NFC -> U+0439)
	"u\u0308ber+tag",          // u + DIAERESIS
	"\u2126hm",                // OHM SIGN (singleton, NFC -> U+03A9)
}

// compatLocals: in NFC already, but changed by NFKC / width folding.
var compatLocals = []string{"\uff55\uff53\uff45\uff52", "\uff29\uff4e\uff46\uff4f", "\ufb01nance", "\u2460\u2461\u2462", "\u210cello", "x\u00b2", "\uff76\uff80\uff76\uff85"}

// caseLocals: changed by case folding.
var caseASCIILocals = []string{"Alice.Smith", "McDonald", "ALLCAPS", "camelCase+Tag", "iNFO", "Bob_O-Neil"}
var caseUTF8Locals = []string{"\u00dcn\u00efCode", "\u042e\u0417\u0415\u0420", "\u0130stanbul", "Stra\u00dfe", "\u0394\u03bf\u03ba\u03b9\u03bc\u03ae"}

// quotedLocals: quoted-string local parts (RFC 5321 4.1.2), some of which need
// the quotes (space, specials, consecutive or leading dots), some of which do not.
var quotedASCIILocals = []string{`"john doe"`, `"a@b"`, `"semi;colon"`, `"quote\"inside"`, `"back\\slash"`, `"needless"`, `"dot..dot"`, `".leading"`, `"comma,list"`, `"<angle>"`}
var quotedUTF8Locals = []string{"\"\u0436\u0430\u043d \u043f\u043e\u043b\u044c\"", "\"re\u0301sume\u0301 cv\""}

var idnA = map[string]string{}

func initDomains() error {
	for _, d := range idnDomains {
		a, err := idna.ToASCII(d)
		if err != nil || a == d || !strings.Contains(a, "xn--") {
			return fmt.Errorf("cannot derive the A-label form of %q: %v %q", d, err, a)
		}
		back, err := idna.ToUnicode(a)
		if err != nil || back != d {
			return fmt.Errorf("A-label %q does not decode to %q", a, d)
		}
		idnA[d] = a
	}
	if err := initIDNSpellings(); err != nil {
		return err
	}
	// self-check of the hostile local part pools: each must really be what its pool says
	for _, l := range nfdLocals {
		if norm.NFC.String(l) == l {
			return fmt.Errorf("local part %+q is in NFC already", l)
		}
	}
	for _, l := range compatLocals {
		if norm.NFC.String(l) != l || norm.NFKC.String(l) == l {
			return fmt.Errorf("local part %+q is not an NFC string that NFKC changes", l)
		}
	}
	for _, l := range append(append([]string{}, caseASCIILocals...), caseUTF8Locals...) {
		if strings.ToLower(l) == l {
			return fmt.Errorf("local part %+q has no upper-case letter", l)
		}
	}
	for _, l := range append(append([]string{}, quotedASCIILocals...), quotedUTF8Locals...) {
		if _, ok := unquoteLocal(l); !ok {
			return fmt.Errorf("local part %+q is not a quoted-string", l)
		}
	}
	return nil
}

// unquoteLocal returns the content of a quoted-string local part
// (RFC 5321 4.1.2: DQUOTE *(qtextSMTP / "\" x) DQUOTE).
func unquoteLocal(l string) (string, bool) {
	if len(l) < 2 || l[0] != '"' || l[len(l)-1] != '"' {
		return "", false
	}
	in := l[1 : len(l)-1]
	var b strings.Builder
	for i := 0; i < len(in); i++ {
		switch in[i] {
		case '"':
			return "", false
		case '\\':
			i++
			if i >= len(in) {
				return "", false
			}
			b.WriteByte(in[i])
		default:
			b.WriteByte(in[i])
		}
	}
	return b.String(), true
}

// dotAtom: can s stand as a local part without quotes (RFC 5321 Dot-string,
// RFC 6531 adds every non-ASCII character to atext)?
func dotAtom(s string) bool {
	if s == "" || s[0] == '.' || s[len(s)-1] == '.' || strings.Contains(s, "..") {
		return false
	}
	for i := 0; i < len(s); i++ {
		c := s[i]
		if c >= 0x80 {
			continue
		}
		if c <= ' ' || c == 0x7f || strings.IndexByte(`()<>[]:;@\,"`, c) >= 0 {
			return false
		}
	}
	return true
}

// localContent is what a local part denotes independent of its quoting:
// RFC 5321 4.1.2 declares "abc"@d and abc@d (and "a\bc"@d) equivalent, so a
// report may legitimately show another quoting of the same content. ok=false:
// neither a quoted-string nor a Dot-string.
func localContent(l string) (string, bool) {
	if strings.HasPrefix(l, `"`) {
		return unquoteLocal(l)
	}
	return l, dotAtom(l)
}

// foldLocal maps a local part to what every normaliser/folder we know of would
// make of it; used only to give mailboxes of one case pairwise different folded
// forms (so that a re-spelled address can be attributed) and to name the cause
// class of a violation, never to accept anything.
func foldLocal(l string) string {
	if c, ok := localContent(l); ok {
		l = c
	}
	return strings.ToLower(norm.NFKC.String(strings.ToLower(l)))
}

// domKey is the class of a domain: case-insensitive, U-label and A-label
// spelling are the same domain (a non-EAI report shows the A-label form of
// what the sender wrote as U-label, RFC 6533 and dsn.go SelectIDNA).
func domKey(d string) string {
	d = strings.ToLower(norm.NFC.String(d))
	if a, err := idna.ToASCII(d); err == nil {
		return strings.ToLower(a)
	}
	return d
}

func splitAddr(a string) (local, dom string, ok bool) {
	i := strings.LastIndexByte(a, '@')
	if i <= 0 || i == len(a)-1 {
		return "", "", false
	}
	return a[:i], a[i+1:], true
}

// addrTable: how the harness recognises an address shown by maddy. The
// DOMAIN is compared as a class, the LOCAL PART octet for octet (how =
// "exact"), or, failing that, by content modulo quoting ("requoted",
// legitimate, counted); a local part that matches only after case folding /
// Unicode normalisation is a re-spelled one ("respelled": not the address the
// sender used).
type addrTable struct {
	exact   map[string]int
	content map[string]int
	folded  map[string]int
	kind    map[int]string
}

func newAddrTable() *addrTable {
	return &addrTable{exact: map[string]int{}, content: map[string]int{}, folded: map[string]int{}, kind: map[int]string{}}
}

func (t *addrTable) add(m mailbox) {
	dk := domKey(m.domU)
	t.exact[m.local+"@"+dk] = m.id
	if c, ok := localContent(m.local); ok {
		t.content[c+"@"+dk] = m.id
	}
	t.folded[foldLocal(m.local)+"@"+dk] = m.id
	t.kind[m.id] = m.kind
}

func (t *addrTable) lookup(addr string) (id int, how string) {
	l, d, ok := splitAddr(addr)
	if !ok {
		return 0, "unknown"
	}
	dk := domKey(d)
	if id, ok := t.exact[l+"@"+dk]; ok {
		return id, "exact"
	}
	if c, ok := localContent(l); ok {
		if id, ok := t.content[c+"@"+dk]; ok {
			return id, "requoted"
		}
	}
	if id, ok := t.folded[foldLocal(l)+"@"+dk]; ok {
		return id, "respelled"
	}
	return 0, "unknown"
}

// genMailboxes returns n distinct mailboxes. allowUTF8Local says whether
// local parts may be non-ASCII. p2 is a separate stream that decides whether
// the local part is replaced by one of the hostile spellings.
func genMailboxes(p, p2 *prng.R, n int, firstID int, allowUTF8Local bool, used map[string]bool) []mailbox {
	var out []mailbox
	for len(out) < n {
		var m mailbox
		if allowUTF8Local && p.Chance(1, 3) {
			m.local = prng.Pick(p, utf8Locals)
			m.kind = "utf8"
		} else {
			m.local = prng.Pick(p, asciiLocals)
			m.kind = "plain"
		}
		if p.Chance(2, 5) {
			m.domU = prng.Pick(p, idnDomains)
			m.domA = idnA[m.domU]
		} else {
			m.domU = prng.Pick(p, asciiDomains)
			m.domA = m.domU
		}
		if p2.Chance(1, 3) {
			if allowUTF8Local {
				switch p2.Intn(6) {
				case 0, 1:
					m.local, m.kind = prng.Pick(p2, nfdLocals), "nfd"
				case 2:
					m.local, m.kind = prng.Pick(p2, compatLocals), "compat"
				case 3:
					m.local, m.kind = prng.Pick(p2, append(append([]string{}, caseASCIILocals...), caseUTF8Locals...)), "case"
				default:
					m.local, m.kind = prng.Pick(p2, append(append([]string{}, quotedASCIILocals...), quotedUTF8Locals...)), "quoted"
				}
			} else if p2.Bool() {
				m.local, m.kind = prng.Pick(p2, caseASCIILocals), "case"
			} else {
				m.local, m.kind = prng.Pick(p2, quotedASCIILocals), "quoted"
			}
		}
		key := foldLocal(m.local) + "@" + domKey(m.domU)
		if used[key] {
			continue
		}
		used[key] = true
		m.id = firstID + len(out)
		out = append(out, m)
	}
	return out
}

// ---------------------------------------------------------------- errors

type errSpec struct {
	Class     string `json:"class"` // temp perm unclassified
	Annotated bool   `json:"annotated"`
	Code      int    `json:"code,omitempty"`
	Enh       [3]int `json:"enh,omitempty"`
	Text      string `json:"text"`
	TextKind  string `json:"text_kind"`
	Wrapped   bool   `json:"wrapped,omitempty"`
	// NoEnh: the target reported a basic code only (a next hop without
	// enhanced status codes); Enh is 0.0.0.
	NoEnh bool `json:"no_enhanced_code,omitempty"`
	// Inner: the SMTPError wraps (Err) another error that carries a code,
	// enhanced code and text of its own, as target.remote's "No usable MXs,
	// last err: ..." wraps the reply of the last MX. The outer error is the
	// one that was returned: its status is the recipient's last status.
	Inner *innerErr `json:"inner,omitempty"`
}

type innerErr struct {
	Code int    `json:"code"`
	Enh  [3]int `json:"enh"`
	Text string `json:"text"`
}

type codePair struct {
	code int
	enh  [3]int
}

var tempCodes = []codePair{{450, [3]int{4, 2, 0}}, {451, [3]int{4, 3, 0}}, {452, [3]int{4, 2, 2}}, {421, [3]int{4, 4, 2}}, {451, [3]int{4, 7, 1}}, {450, [3]int{4, 4, 1}}, {451, [3]int{4, 4, 5}}, {454, [3]int{4, 7, 0}}}
var permCodes = []codePair{{550, [3]int{5, 1, 1}}, {551, [3]int{5, 1, 6}}, {552, [3]int{5, 2, 2}}, {553, [3]int{5, 1, 3}}, {554, [3]int{5, 7, 1}}, {550, [3]int{5, 7, 23}}, {556, [3]int{5, 1, 10}}, {501, [3]int{5, 1, 8}}, {550, [3]int{5, 4, 4}}}

func genText(p *prng.R, n int) (string, string) {
	tok := fmt.Sprintf("tok%04d", n)
	switch p.Intn(8) {
	case 0, 1:
		return "mailbox unavailable " + tok, "ascii"
	case 2:
		return "first line " + tok + "\nsecond line\r\nthird line", "multiline"
	case 3:
		return "ящик недоступен " + tok + " 邮箱不可用 caf\u00e9", "utf8"
	case 4:
		return "control \u0080 boundary " + tok, "u0080"
	case 5:
		return strings.Repeat("long text with spaces ", 12) + tok, "long"
	case 6:
		return strings.Repeat("x", 120) + tok, "long-token"
	default:
		return " padded  " + tok + "  ", "padded"
	}
}

// genRawControls: error texts with C0 control characters other than HT, CR, LF
// (and DEL). See NOTES.md "Round 4": dsn.RecipientInfo.WriteTo copies them
// into Diagnostic-Code, which standard parsers then refuse. Reported to the
// coordinator as a suspected defect of the unchanged tree; the class is
// excluded (not generated) until that is decided. Overridable for replaying
// the finding: VERIF_C18_RAW_CONTROLS=1.
var genRawControls = os.Getenv("VERIF_C18_RAW_CONTROLS") != "0" // on since fix 429a907 (dsn: control characters neutralised); "0" switches the class off

// hostileText: reply texts a real next hop can cause that the plain generator
// above does not produce. The SMTP client hands over the reply lines joined
// with LF after stripping ONE CRLF per line, so a server ending its lines
// with CR CR LF leaves a CR at the end of every line; nothing stops a server
// from sending bare CR, TAB or other control characters inside a line, a
// 10 kB line, lines with differing enhanced codes (only the first is parsed,
// the others stay in the text) or no text at all. Drawn from a stream of its
// own (keyed like the fault) so that the faults of earlier versions keep
// their place.
func hostileText(q *prng.R, n int) (string, string, bool) {
	if !q.Chance(1, 3) {
		return "", "", false
	}
	tok := fmt.Sprintf("tok%04d", n)
	k := q.Intn(16)
	if k == 15 && !genRawControls {
		k = q.Intn(15)
	}
	switch k {
	case 0:
		return "line one " + tok + "\rline two\rline three", "bare-cr", true
	case 1:
		// CR CR LF line ends: one CRLF stripped per line by the client
		return "mx.example.org said: Mailbox full " + tok + "\r\nTry again later\r", "crcrlf-line-ends", true
	case 2:
		return "single line " + tok + "\r", "cr-at-end", true
	case 3:
		return "\r" + tok + "\r\r\n\r\rmixed\n\rbreaks\r\n", "cr-lf-mixed", true
	case 4:
		return "\nleading and trailing " + tok + "\n\nline breaks\n", "bare-lf-edges", true
	case 5:
		return "tab\tseparated\t" + tok + "\t", "tab", true
	case 6:
		return strings.Repeat("y", 1500) + tok, "very-long-token", true
	case 7:
		return strings.Repeat("a rather long reply line with spaces ", 110) + tok, "very-long-line", true
	case 8:
		return strings.Repeat("\u0434\u043b\u0438\u043d\u043d\u043e", 100) + tok, "very-long-utf8-token", true
	case 9:
		return "first reply line " + tok + "\n5.2.2 second line carries another code\n4.4.4 third line yet another", "multiline-differing-enhanced-codes", true
	case 10:
		return "", "empty", true
	case 11:
		return prng.Pick(q, []string{" ", "\r\n", "\n", "\t", "\r"}), "white-space-only", true
	case 12:
		return "5.7.1 " + tok + " text that begins like an enhanced code", "code-lookalike", true
	case 13:
		return tok + ": header-like\r\nStatus: 2.0.0\r\nAction: delivered\r\n\r\nFinal-Recipient: rfc822; nobody@example.org", "field-lookalike-lines", true
	case 14:
		return strings.Repeat("line "+tok+"\r\n", 60), "sixty-lines", true
	default:
		return "bell\x07 esc\x1b vt\x0b ff\x0c bs\x08 soh\x01 del\x7f " + tok, "c0-control", true
	}
}

// eightBitText: reply texts with octets outside of ASCII in every encoding a
// next hop may use (nothing obliges a server without SMTPUTF8 to send ASCII,
// and nothing guarantees that what it sends is UTF-8): valid UTF-8 of 2, 3
// and 4 octets per character, C1 controls / NBSP / LINE SEPARATOR written in
// UTF-8, ISO-8859-1 and Windows-1251 octets, truncated, overlong and
// surrogate sequences, lone continuation octets, 0xFE 0xFF, 8-bit octets
// across line breaks, a text without any ASCII, a kilobyte of 8-bit octets
// without a break. The genText classes "utf8" and "u0080" stay as they are.
// Drawn from a stream of its own (keyed like the fault). A report of a message
// sent WITHOUT SMTPUTF8 is itself sent without SMTPUTF8 and has a
// message/delivery-status part (7-bit, RFC 3464 2.1): none of these octets may
// show up in its header or in its delivery-status fields.
var eightBitKinds = []string{"8bit-utf8-latin", "8bit-utf8-4-octet", "8bit-latin1", "8bit-cp1251", "8bit-truncated-utf8", "8bit-overlong-and-surrogate", "8bit-lone-continuation-fe-ff", "8bit-across-line-breaks", "8bit-no-ascii-at-all", "8bit-c1-nbsp-linesep", "8bit-very-long-token"}

func eightBitText(r8 *prng.R, n int) (string, string, bool) {
	if !r8.Chance(1, 5) {
		return "", "", false
	}
	tok := fmt.Sprintf("tok%04d", n)
	k := r8.Intn(len(eightBitKinds))
	var t string
	switch k {
	case 0:
		t = "Bo\u00eete aux lettres pleine \u2014 r\u00e9essayez plus tard " + tok
	case 1:
		t = "mailbox full \U0001F4EA \U0001D518\U0001D52B\U0001D526 " + tok
	case 2:
		t = "Bo\xeete aux lettres pleine, r\xe9essayez " + tok + " \xa7\xb0"
	case 3:
		t = "\xff\xf9\xe8\xea \xef\xe5\xf0\xe5\xef\xee\xeb\xed\xe5\xed " + tok
	case 4:
		t = "quota exceeded \xe2\x82 " + tok + " \xf0\x9f\x93"
	case 5:
		t = "\xc0\xaf \xe0\x80\xaf \xed\xa0\x80 \xf4\x90\x80\x80 " + tok
	case 6:
		t = "\x80\xbf \xfe\xff " + tok + " \xbf"
	case 7:
		t = "premi\u00e8re ligne " + tok + "\r\ndeuxi\xe8me ligne\n\u0442\u0440\u0435\u0442\u044c\u044f \u0441\u0442\u0440\u043e\u043a\u0430\r\n\xe9"
	case 8:
		t = "\u043e\u0448\u0438\u0431\u043a\u0430"
	case 9:
		t = "no\u00a0break\u0085next\u009bcsi\u2028line " + tok
	default:
		t = strings.Repeat("\xe9\xe8", 600) + tok
	}
	return t, eightBitKinds[k], true
}

func genErr(p, q, r8, nst *prng.R, class string, n int) *errSpec {
	e := &errSpec{Class: class}
	e.Text, e.TextKind = genText(p, n)
	if t, k, ok := hostileText(q, n); ok {
		e.Text, e.TextKind = t, k
	}
	if t, k, ok := eightBitText(r8, n); ok {
		e.Text, e.TextKind = t, k
	}
	switch class {
	case mx.Temp:
		if p.Chance(3, 4) {
			c := prng.Pick(p, tempCodes)
			e.Annotated, e.Code, e.Enh = true, c.code, c.enh
		}
	case mx.Perm:
		if p.Chance(3, 4) {
			c := prng.Pick(p, permCodes)
			e.Annotated, e.Code, e.Enh = true, c.code, c.enh
		}
	}
	e.Wrapped = p.Chance(1, 3)
	if e.Annotated && p.Chance(1, 6) {
		e.NoEnh = true
		e.Enh = [3]int{}
	}
	// stream of its own: nested SMTP errors
	if e.Annotated && nst.Chance(1, 4) {
		for {
			c := prng.Pick(nst, append(append([]codePair{}, tempCodes...), permCodes...))
			if c.code != e.Code && c.enh != e.Enh {
				e.Inner = &innerErr{Code: c.code, Enh: c.enh, Text: fmt.Sprintf("reply of the last host inner%04d", n)}
				break
			}
		}
	}
	return e
}

func (e *errSpec) build() error {
	var err error
	switch {
	case e.Annotated:
		inner := errors.New("inner detail")
		if e.Inner != nil {
			inner = &exterrors.SMTPError{
				Code:         e.Inner.Code,
				EnhancedCode: exterrors.EnhancedCode{e.Inner.Enh[0], e.Inner.Enh[1], e.Inner.Enh[2]},
				Message:      e.Inner.Text,
				TargetName:   "verif-inner",
			}
		}
		err = &exterrors.SMTPError{
			Code:         e.Code,
			EnhancedCode: exterrors.EnhancedCode{e.Enh[0], e.Enh[1], e.Enh[2]},
			Message:      e.Text,
			TargetName:   "verif",
			Err:          inner,
		}
	case e.Class == mx.Temp:
		err = exterrors.WithTemporary(errors.New(e.Text), true)
	case e.Class == mx.Perm:
		err = exterrors.WithTemporary(errors.New(e.Text), false)
	default:
		err = errors.New(e.Text)
	}
	if e.Wrapped {
		err = exterrors.WithFields(err, map[string]interface{}{"effective_rcpt": "someone"})
	}
	return err
}

func (e *errSpec) terminal() bool { return e.Class == mx.Perm }

// ---------------------------------------------------------------- scenario

type rcptPlan struct {
	Eff  mailbox // address the queue is given
	Orig *mailbox
	// spelling choice
	EffSpell  string
	OrigSpell string
	chained   bool // Orig is the address the previous recipient was rewritten to
	// group B: the rewrite is one 1-to-1 step in one scope (then: which), so
	// that the next recipient can be chained onto it
	single bool
	scope  int
}

type msgPlan struct {
	ID        string
	Sender    *mailbox // nil = null sender
	From      string   // envelope sender handed to the queue
	OrigFrom  string
	FromAlt   *mailbox // rewritten envelope sender (From), when different from OriginalFrom
	Rcpts     []rcptPlan
	HeaderRaw []byte
	// EHLO name of the client that handed the message in (MsgMetadata.Conn.Hostname, quoted as
	// Received-From-MTA by the report); "" = no connection metadata. Group A only.
	Ehlo      string
	EhloClass string
	// group B: the addresses the client gives in RCPT TO, in order (Rcpts then
	// lists what the pipeline makes of them, i.e. what the queue is given)
	Client []string
	src    *srcBlockPlan
}

type scenario struct {
	UTF8         bool
	MaxTries     int
	Partial      bool
	Hostname     string
	Msgs         []*msgPlan
	BounceFail   string // "", start, rcpt, body, commit
	BounceClass  string
	Loop         bool
	Parallelism  int
	addrs        *addrTable   // address shown by maddy -> mailbox id (domain as a class, local part exact)
	effOrigin    map[int]int  // effective mailbox id -> original mailbox id (rewritten recipients)
	effOnly      map[int]bool // mailbox ids that are only rewrite targets
	faults       map[string]*errSpec
	faultCounter int
	chainedRcpts int // recipients whose client-supplied address is another recipient's rewrite target
	localKinds   map[string]int

	// documented queue options that earlier versions left at one value
	// (stream "c18-queue-options")
	QDebug        bool   // debug yes
	AutogenDomain string // autogenerated_msg_domain
	// how an internationalized autogenerated_msg_domain / hostname is written
	// (ascii | u-label | a-label | mixed-case-u-label | upper-case-u-label |
	// upper-case-a-label | mixed-labels | nfd-u-label); stream "c18-idn-options"
	AutogenSpelling  string
	HostnameSpelling string
	NoBounce      bool   // no bounce { } block: no report can be generated at all

	// group B (message reaches the queue through a real pipeline)
	pipe      *pipePlan
	forcePerm bool           // every injected failure is permanent (the queue has its production retry delays)
	rwKind    map[int]string // client-supplied mailbox id -> how the pipeline rewrites it
	merged    map[int]bool   // client-supplied mailbox ids that share their rewrite target with another one
}

var autogenDomains = []string{"reports.example.org", "example.org", "mx.example.org", "bounces.mail.example.net", "\u043f\u043e\u0447\u0442\u0430.example"}

// genQueueOptions draws the queue options from a stream of their own so that
// the scenarios of earlier harness versions keep their place.
func genQueueOptions(sc *scenario, seed uint64, ci int) {
	p3 := prng.New(seed, uint64(ci), "c18-queue-options")
	sc.QDebug = p3.Chance(1, 2)
	sc.AutogenDomain = autogenDomains[p3.Weighted([]int{4, 2, 2, 2, 1})]
	sc.NoBounce = p3.Chance(1, 16)

	// An administrator may write an internationalized domain in any spelling;
	// a report of a message without SMTPUTF8 has to come out 7-bit whatever
	// the spelling is. Stream of its own: the options above keep their place.
	sc.AutogenSpelling, sc.HostnameSpelling = "ascii", "ascii"
	if !pureASCII(sc.AutogenDomain) {
		sc.AutogenSpelling = "u-label"
	}
	if !pureASCII(sc.Hostname) {
		sc.HostnameSpelling = "u-label"
	}
	p4 := prng.New(seed, uint64(ci), "c18-idn-options")
	pickSpelling := func() idnSpelling {
		// the kind first, so that every kind is equally frequent
		k := prng.Pick(p4, idnSpellingKinds)
		var c []idnSpelling
		for _, sp := range idnSpellings {
			if sp.kind == k {
				c = append(c, sp)
			}
		}
		return c[p4.Intn(len(c))]
	}
	if p4.Chance(1, 3) {
		sp := pickSpelling()
		sc.AutogenDomain, sc.AutogenSpelling = sp.dom, sp.kind
	}
	if p4.Chance(1, 3) {
		sp := pickSpelling()
		sc.Hostname, sc.HostnameSpelling = prng.Pick(p4, []string{"mx.", "mail.", ""})+sp.dom, sp.kind
	}
}

type idnSpelling struct{ dom, kind string }

// idnSpellings: filled by initDomains from idnOptionBases (A-label forms are
// derived with x/net/idna, never typed in).
var idnSpellings []idnSpelling
var idnSpellingKinds = []string{"u-label", "a-label", "mixed-case-u-label", "upper-case-u-label", "upper-case-a-label", "mixed-labels", "nfd-u-label"}

func initIDNSpellings() error {
	add := func(d, k string) { idnSpellings = append(idnSpellings, idnSpelling{d, k}) }
	toA := func(d string) (string, error) {
		a, err := idna.ToASCII(d)
		if err != nil || !pureASCII(a) || !strings.Contains(a, "xn--") {
			return "", fmt.Errorf("cannot derive the A-label form of %q: %v %q", d, err, a)
		}
		return a, nil
	}
	// every label internationalized, so that each label has both forms
	for _, b := range []struct{ lower, mixed string }{
		{"\u043f\u043e\u0447\u0442\u0430.\u0440\u0444", "\u041f\u043e\u0447\u0442\u0430.\u0420\u0424"},
		{"b\u00fccher.\u00f6sterreich.example", "B\u00fccher.\u00d6sterreich.Example"},
		{"\u03b4\u03bf\u03ba\u03b9\u03bc\u03ae.\u03b5\u03bb", "\u0394\u03bf\u03ba\u03b9\u03bc\u03ae.\u0395\u03bb"},
	} {
		a, err := toA(b.lower)
		if err != nil {
			return err
		}
		add(b.lower, "u-label")
		add(a, "a-label")
		add(b.mixed, "mixed-case-u-label")
		add(strings.ToUpper(b.lower), "upper-case-u-label")
		add(strings.ToUpper(a), "upper-case-a-label")
		ul, al := strings.Split(b.lower, "."), strings.Split(a, ".")
		if len(ul) != len(al) || len(ul) < 2 {
			return fmt.Errorf("label count of %q and %q differs", b.lower, a)
		}
		add(ul[0]+"."+strings.Join(al[1:], "."), "mixed-labels")
		add(al[0]+"."+strings.Join(ul[1:], "."), "mixed-labels")
		nfd := norm.NFD.String(b.lower)
		if nfd != b.lower {
			add(nfd, "nfd-u-label")
		}
	}
	for _, k := range idnSpellingKinds {
		n := 0
		for _, sp := range idnSpellings {
			if sp.kind == k {
				n++
			}
		}
		if n == 0 {
			return fmt.Errorf("no domain spelled %s", k)
		}
	}
	return nil
}

func genHeader(p *prng.R, utf8 bool) []byte {
	var b bytes.Buffer
	n := p.Range(1, 7)
	names := []string{"Subject", "From", "To", "Date", "Message-Id", "X-Custom", "Received", "MIME-Version", "Content-Type", "x-lower-case", "X-Empty", "List-Id"}
	for i := 0; i < n; i++ {
		name := prng.Pick(p, names)
		var val string
		switch p.Intn(7) {
		case 0:
			val = "simple value"
		case 1:
			val = "folded value\r\n continues here\r\n\tand here"
		case 2:
			val = ""
		case 3:
			val = strings.Repeat("long ", 40) + "end"
		case 4:
			if utf8 || p.Bool() {
				val = "8-bit значение 値 caf\u00e9"
			} else {
				val = "=?utf-8?q?encoded=20word?="
			}
		case 5:
			val = "<id." + fmt.Sprint(p.Intn(100000)) + "@example.org>"
		default:
			val = "dup " + fmt.Sprint(i)
		}
		if val == "" {
			fmt.Fprintf(&b, "%s:\r\n", name)
		} else {
			fmt.Fprintf(&b, "%s: %s\r\n", name, val)
		}
	}
	return b.Bytes()
}

func spell(p *prng.R, m mailbox, utf8 bool) string {
	// Inside maddy addresses are normally held with U-label domains (the
	// endpoint cleans them); the A-label spelling reaches the queue when a
	// message does not come through an endpoint.
	if m.idn() && p.Chance(1, 3) {
		return m.a()
	}
	return m.u()
}

func genScenario(p *prng.R, seed uint64, ci int) *scenario {
	// p2: separate stream for the dimensions added later (hostile local part spellings), so that the
	// scenarios of earlier harness versions are not reshuffled
	p2 := prng.New(seed, uint64(ci), "c18-local-spelling")
	sc := &scenario{addrs: newAddrTable(), localKinds: map[string]int{}, effOrigin: map[int]int{}, effOnly: map[int]bool{}, faults: map[string]*errSpec{}}
	sc.UTF8 = p.Bool()
	sc.MaxTries = p.Range(1, 3)
	sc.Partial = p.Bool()
	sc.Parallelism = p.Range(1, 4)
	if p.Chance(1, 4) {
		sc.Hostname = "mx.тест.example"
	} else {
		sc.Hostname = "mx.example.org"
	}
	if p.Chance(1, 4) {
		sc.BounceFail = prng.Pick(p, []string{mx.StStart, mx.StRcpt, mx.StBody, mx.StCommit})
		sc.BounceClass = prng.Pick(p, []string{mx.Temp, mx.Perm, mx.Unclassified})
	}
	sc.Loop = p.Chance(1, 3)
	used := map[string]bool{}
	nm := p.Range(1, 3)
	nextID := 1
	reg := func(m mailbox) {
		sc.addrs.add(m)
		sc.localKinds[m.kind]++
	}
	for mi := 0; mi < nm; mi++ {
		m := &msgPlan{ID: fmt.Sprintf("c%dm%d", ci, mi)}
		// sender: client-supplied, so ASCII local part unless the message is an EAI one
		if !p.Chance(1, 6) {
			s := genMailboxes(p, p2, 1, nextID, sc.UTF8, used)[0]
			nextID++
			reg(s)
			m.Sender = &s
			m.OrigFrom = spell(p, s, sc.UTF8)
			m.From = m.OrigFrom
			if p.Chance(1, 8) {
				// sender rewritten by a modifier in front of the queue
				alt := genMailboxes(p, p2, 1, nextID, sc.UTF8, used)[0]
				nextID++
				reg(alt)
				m.FromAlt = &alt
				m.From = spell(p, alt, sc.UTF8)
			}
		}
		nr := p.Range(1, 5)
		for ri := 0; ri < nr; ri++ {
			var rp rcptPlan
			if ri > 0 && m.Rcpts[ri-1].Orig != nil && !m.Rcpts[ri-1].chained && (sc.UTF8 || pureASCII(m.Rcpts[ri-1].EffSpell)) && p.Chance(1, 3) {
				// (a client without SMTPUTF8 cannot have supplied a non-ASCII address, so in such a
				// message only an all-ASCII rewrite target can double as a client-supplied address)
				// chained aliases: the client ALSO addressed the message to the address the
				// previous recipient was rewritten to, and that one is rewritten further
				// (old@ -> info@, info@ -> mailbox@; OriginalRcpts = {info@: old@, mailbox@: info@}).
				// A failure of mailbox@ must be reported under info@, one step back, not under old@.
				prev := &m.Rcpts[ri-1]
				e := genMailboxes(p, p2, 1, nextID, true, used)[0]
				nextID++
				reg(e)
				o := prev.Eff
				rp.Orig, rp.Eff = &o, e
				rp.OrigSpell = prev.EffSpell
				rp.EffSpell = spell(p, e, sc.UTF8)
				rp.chained = true
				sc.effOrigin[e.id] = o.id
				sc.effOnly[e.id] = true
				delete(sc.effOnly, o.id) // also a client-supplied address now
				sc.chainedRcpts++
			} else if p.Chance(2, 5) {
				// rewritten recipient: the client used Orig, the queue holds Eff
				o := genMailboxes(p, p2, 1, nextID, sc.UTF8, used)[0]
				nextID++
				e := genMailboxes(p, p2, 1, nextID, true, used)[0]
				nextID++
				reg(o)
				reg(e)
				rp.Orig, rp.Eff = &o, e
				rp.OrigSpell = spell(p, o, sc.UTF8)
				rp.EffSpell = spell(p, e, sc.UTF8)
				sc.effOrigin[e.id] = o.id
				sc.effOnly[e.id] = true
			} else {
				e := genMailboxes(p, p2, 1, nextID, sc.UTF8, used)[0]
				nextID++
				reg(e)
				rp.Eff = e
				rp.EffSpell = spell(p, e, sc.UTF8)
			}
			m.Rcpts = append(m.Rcpts, rp)
		}
		m.HeaderRaw = genHeader(p, sc.UTF8)
		sc.Msgs = append(sc.Msgs, m)
	}
	genQueueOptions(sc, seed, ci)
	// stream of its own: whatever a client says in EHLO (no endpoint validates it)
	pe := prng.New(seed, uint64(ci), "c18-ehlo")
	for _, m := range sc.Msgs {
		if pe.Chance(1, 2) {
			e := ehloNames[pe.Intn(len(ehloNames))]
			m.Ehlo, m.EhloClass = e.name, e.class
		}
	}
	return sc
}

// ehloNames: the classes of harness/c01/domains_test.go. The queue keeps
// MsgMetadata.Conn and the report quotes Conn.Hostname as Received-From-MTA;
// whatever the client said there, the report has to exist and be well-formed.
var ehloNames = []struct{ name, class string }{
	{"client.example.net", "plain"}, {"CLIENT.Example.NET.", "case-trailing-dot"},
	{"[192.0.2.10]", "ipv4-literal"}, {"[IPv6:2001:db8::10]", "ipv6-literal"}, {"192.0.2.10", "bare-ip"},
	{"mail_gw1.example.com", "underscore"}, {"localhost", "single-label"}, {"-gw-.example.com", "hyphens"},
	{"\u043f\u043e\u0447\u0442\u0430.example", "u-label"}, {"xn--80a1acny.example", "a-label"}, {"XN--80A1ACNY.example", "upper-a-label"},
	{"xn--999999999.example", "invalid-a-label"}, {"xn--0", "invalid-a-label"}, {"xn--.example", "invalid-a-label"}, {"xn--a-ecp.ru.xn--", "invalid-a-label"},
	{"a..example", "empty-label"}, {".example", "empty-label"},
	{"l" + strings.Repeat("o", 70) + "ng.example", "label-over-63"}, {strings.Repeat("a2345678.", 30) + "example", "name-over-253"},
	{"caf\xe9.example", "invalid-utf8"}, {"gw 1.example", "space"}, {"ab\u00adcd.example", "soft-hyphen"},
}

// ---------------------------------------------------------------- fault plan (lazy, deterministic per point)

func origID(id string) string {
	if i := strings.LastIndexByte(id, '-'); i >= 0 {
		return id[:i]
	}
	return id
}

type planner struct {
	mu   sync.Mutex
	seed uint64
	ci   int
	sc   *scenario
	att  map[string]int
}

// decide returns the injected error for a point of the main target. Decisions
// depend only on (seed, case, message, attempt, stage, recipient), never on timing.
func (pl *planner) decide(pt mx.Point) *errSpec {
	id := origID(pt.MsgID)
	pl.mu.Lock()
	defer pl.mu.Unlock()
	// mx.ScriptTarget numbers attempts per msgMeta.ID, which below a queue
	// carries the wall-clock second; count per message here (the attempts of
	// one message never overlap).
	if pl.att == nil {
		pl.att = map[string]int{}
	}
	if pt.Stage == mx.StStart {
		pl.att[id]++
	}
	pt.Attempt = pl.att[id]
	key := fmt.Sprintf("%s|%d|%s|%s", id, pt.Attempt, pt.Stage, pt.Rcpt)
	if e, ok := pl.sc.faults[key]; ok {
		return e
	}
	p := prng.New(pl.seed, uint64(pl.ci), "c18-fault|"+key)
	q := prng.New(pl.seed, uint64(pl.ci), "c18-hostile-text|"+key)
	r8 := prng.New(pl.seed, uint64(pl.ci), "c18-8bit-text|"+key)
	nst := prng.New(pl.seed, uint64(pl.ci), "c18-nested-error|"+key)
	// attempt-level disposition, shared by all stages of the attempt
	pa := prng.New(pl.seed, uint64(pl.ci), fmt.Sprintf("c18-att|%s|%d", id, pt.Attempt))
	attKind := pa.Weighted([]int{6, 1, 1, 1}) // per-recipient, start, body, commit
	var e *errSpec
	pickClass := func(q *prng.R) string {
		c := []string{mx.Temp, mx.Perm, mx.Unclassified}[q.Weighted([]int{4, 4, 2})]
		if pl.sc.forcePerm {
			return mx.Perm
		}
		return c
	}
	pl.sc.faultCounter++
	n := pl.sc.faultCounter
	switch pt.Stage {
	case mx.StStart:
		if attKind == 1 {
			e = genErr(p, q, r8, nst, pickClass(p), n)
		}
	case mx.StBody:
		if attKind == 2 {
			e = genErr(p, q, r8, nst, pickClass(p), n)
		}
	case mx.StCommit:
		if attKind == 3 {
			e = genErr(p, q, r8, nst, pickClass(p), n)
		}
	case mx.StRcpt:
		if p.Chance(2, 5) {
			e = genErr(p, q, r8, nst, pickClass(p), n)
		}
	case mx.StStatus:
		if p.Chance(2, 5) {
			e = genErr(p, q, r8, nst, pickClass(p), n)
		}
	}
	pl.sc.faults[key] = e
	return e
}

// ---------------------------------------------------------------- running

type logCapture struct {
	mu    sync.Mutex
	lines []string
}

func (l *logCapture) Write(stamp time.Time, debug bool, msg string) {
	l.mu.Lock()
	if len(l.lines) < 2000 {
		l.lines = append(l.lines, msg)
	}
	l.mu.Unlock()
}
func (l *logCapture) Close() error { return nil }
func (l *logCapture) panics() []string {
	l.mu.Lock()
	defer l.mu.Unlock()
	var out []string
	for _, s := range l.lines {
		if strings.Contains(s, "panic") {
			out = append(out, s)
		}
	}
	return out
}

func readHeader(raw []byte) (textproto.Header, error) {
	return textproto.ReadHeader(bufio.NewReader(bytes.NewReader(append(append([]byte(nil), raw...), '\r', '\n'))))
}

// spoolBusy: a message is finished when all its spool files are gone (the
// queue removes header, body and meta in that order); a message whose
// dispatch panicked keeps its files next to an <id>.meta_broken marker. The
// test is on "no file of a live message left", not on the .meta file alone,
// because a directory listing taken during the rename of <id>.meta.new over
// <id>.meta may show neither name.
func spoolBusy(dir string) (bool, []string) {
	es, err := os.ReadDir(dir)
	if err != nil {
		return false, nil
	}
	var names []string
	broken := map[string]bool{}
	for _, e := range es {
		names = append(names, e.Name())
		if strings.HasSuffix(e.Name(), ".meta_broken") {
			broken[strings.TrimSuffix(e.Name(), ".meta_broken")] = true
		}
	}
	for _, n := range names {
		id := n
		if i := strings.IndexByte(n, '.'); i >= 0 {
			id = n[:i]
		}
		if !broken[id] {
			return true, names
		}
	}
	return false, names
}

// waitIdle waits until no message is left in the spool. The wall clock is used
// only as a watchdog: expiry is reported as inconclusive by the caller.
func waitIdle(dir string, limit time.Duration) (bool, []string) {
	deadline := time.Now().Add(limit)
	for {
		busy, names := spoolBusy(dir)
		if !busy {
			return true, names
		}
		if time.Now().After(deadline) {
			return false, names
		}
		time.Sleep(2 * time.Millisecond)
	}
}

const (
	quickCases    = 8000
	thoroughCases = 60000
	// group B: the message reaches the queue through a real pipeline built
	// from configuration text (see pipeline_test.go)
	groupBBase     = 1_000_000
	quickCasesB    = 2400
	thoroughCasesB = 16000
)

func TestVerif(t *testing.T) {
	if err := initDomains(); err != nil {
		t.Fatal(err)
	}
	r := rep.Open("C18")
	defer r.Close()
	queue.VerifSetDontRecover(false)
	capture := &logCapture{}
	mlog.DefaultLogger.Out = capture
	n := r.N(quickCases, thoroughCases)
	for i := 0; i < n; i++ {
		r.Run(i, fmt.Sprintf("report-%d", i), func(c *rep.Case) {
			runCase(t, r, c, i, capture, false)
		})
	}
	nb := r.N(quickCasesB, thoroughCasesB)
	for i := 0; i < nb; i++ {
		idx := groupBBase + i
		r.Run(idx, fmt.Sprintf("pipeline-%d", i), func(c *rep.Case) {
			runCase(t, r, c, idx, capture, true)
		})
	}
}

// countOut is the log output of the queues: it discards everything and counts
// the debug lines, so that a run can show that "debug yes" was really on.
type countOut struct{ debugLines atomic.Int64 }

func (o *countOut) Write(stamp time.Time, debug bool, msg string) {
	if debug {
		o.debugLines.Add(1)
	}
}
func (o *countOut) Close() error { return nil }

type expReport struct {
	msg     *msgPlan
	attempt int
	// original-address class id -> last error of a recipient mapped to it
	rcpts   map[int][]*errSpec
	// original-address class id -> last errors the recipients mapped to it met
	// in EARLIER attempts (they were retried; only group A has such histories)
	prior   map[int][]*errSpec
	matched bool
}

type witness struct {
	Scenario string   `json:"scenario"`
	Message  string   `json:"message,omitempty"`
	Expected any      `json:"expected,omitempty"`
	Observed any      `json:"observed,omitempty"`
	Report   string   `json:"report,omitempty"`
	Log      []string `json:"log,omitempty"`
}

func runCase(t *testing.T, r *rep.Reporter, c *rep.Case, ci int, capture *logCapture, groupB bool) {
	capture.mu.Lock()
	capture.lines = nil
	capture.mu.Unlock()
	p := prng.New(r.Seed(), uint64(ci), "c18")
	var sc *scenario
	if groupB {
		sc = genScenarioB(p, r.Seed(), ci)
	} else {
		sc = genScenario(p, r.Seed(), ci)
	}
	pl := &planner{seed: r.Seed(), ci: ci, sc: sc}

	lg := mx.NewLog()
	mainT := mx.NewTarget("main", lg)
	mainT.Partial = sc.Partial
	loopPhase := false
	var loopMu sync.Mutex
	mainT.Script = func(pt mx.Point) error {
		if strings.HasPrefix(pt.MsgID, "loop") {
			// second generation: the report itself cannot be delivered
			if pt.Stage == mx.StRcpt {
				return &exterrors.SMTPError{Code: 550, EnhancedCode: exterrors.EnhancedCode{5, 1, 1}, Message: "no such user (report)"}
			}
			return nil
		}
		if pt.Stage == mx.StAbort {
			return nil
		}
		if e := pl.decide(pt); e != nil {
			return e.build()
		}
		return nil
	}
	bounceT := mx.NewTarget("bounce", lg)
	bounceT.Script = func(pt mx.Point) error {
		loopMu.Lock()
		lp := loopPhase
		loopMu.Unlock()
		if lp || sc.BounceFail == "" || pt.Stage != sc.BounceFail {
			return nil
		}
		return mx.MakeErr(sc.BounceClass, ci, "bounce target failure")
	}

	dir, err := os.MkdirTemp("", "c18")
	if err != nil {
		t.Fatal(err)
	}
	defer os.RemoveAll(dir)
	qlog := &countOut{}
	var q *queue.Queue
	var pipe module.DeliveryTarget
	if groupB {
		// the queue is initialised from configuration text (Queue.Init), the
		// pipeline in front of it is built from configuration text as well
		q, pipe, err = buildFromConfig(r, sc, ci, dir, mainT, bounceT, qlog)
		if err != nil {
			t.Fatalf("harness: %v", err)
		}
	} else {
		opts := queue.VerifOpts{
			Dir: dir, Target: mainT, Bounce: bounceT, MaxTries: sc.MaxTries,
			Parallelism: sc.Parallelism, Hostname: sc.Hostname, AutogenMsgDomain: sc.AutogenDomain,
			Log: &mlog.Logger{Out: qlog, Name: "queue", Debug: sc.QDebug},
		}
		if sc.NoBounce {
			opts.Bounce = nil
		}
		q, err = queue.VerifNewQueue(opts)
		if err != nil {
			t.Fatal(err)
		}
	}
	closed := false
	defer func() {
		if !closed {
			q.Close()
		}
	}()
	ctx := context.Background()

	submit := func(id, from, origFrom string, rcpts []string, origRcpts map[string]string, utf8 bool, hdr textproto.Header, body []byte, ehlo string) error {
		meta := &module.MsgMetadata{ID: id, OriginalFrom: origFrom, OriginalRcpts: origRcpts}
		meta.SMTPOpts.UTF8 = utf8
		if ehlo != "" {
			meta.Conn = &module.ConnState{Proto: "ESMTP", Hostname: ehlo, RemoteAddr: &net.TCPAddr{IP: net.IPv4(192, 0, 2, 10), Port: 4242}, LocalAddr: &net.TCPAddr{IP: net.IPv4(192, 0, 2, 1), Port: 25}}
		}
		d, err := q.Start(ctx, meta, from)
		if err != nil {
			return err
		}
		for _, rc := range rcpts {
			if err := d.AddRcpt(ctx, rc, smtp.RcptOptions{}); err != nil {
				return err
			}
		}
		if err := d.Body(ctx, hdr, buffer.MemoryBuffer{Slice: body}); err != nil {
			return err
		}
		return d.Commit(ctx)
	}

	for _, m := range sc.Msgs {
		hdr, err := readHeader(m.HeaderRaw)
		if err != nil {
			t.Fatalf("harness: generated header does not parse: %v", err)
		}
		if groupB {
			// what an endpoint does: OriginalFrom = MAIL FROM, then MAIL / RCPT / DATA into the pipeline
			meta := &module.MsgMetadata{ID: m.ID, OriginalFrom: m.OrigFrom}
			meta.SMTPOpts.UTF8 = sc.UTF8
			meta.Conn = &module.ConnState{Proto: "ESMTP", Hostname: m.Ehlo, RemoteAddr: &net.TCPAddr{IP: net.IPv4(192, 0, 2, 10), Port: 4242}, LocalAddr: &net.TCPAddr{IP: net.IPv4(192, 0, 2, 1), Port: 25}}
			d, err := pipe.Start(ctx, meta, m.OrigFrom)
			if err != nil {
				t.Fatalf("harness: pipeline refused MAIL FROM %q: %v\n%s", m.OrigFrom, err, sc.pipe.text)
			}
			for _, rc := range m.Client {
				if err := d.AddRcpt(ctx, rc, smtp.RcptOptions{}); err != nil {
					t.Fatalf("harness: pipeline refused RCPT TO %q: %v\n%s", rc, err, sc.pipe.text)
				}
			}
			if err := d.Body(ctx, hdr, buffer.MemoryBuffer{Slice: []byte("body of " + m.ID + "\r\n")}); err != nil {
				t.Fatalf("harness: pipeline refused the body: %v", err)
			}
			if err := d.Commit(ctx); err != nil {
				t.Fatalf("harness: pipeline Commit: %v", err)
			}
			continue
		}
		var rcpts []string
		orig := map[string]string{}
		for _, rp := range m.Rcpts {
			rcpts = append(rcpts, rp.EffSpell)
			if rp.Orig != nil {
				orig[rp.EffSpell] = rp.OrigSpell
			}
		}
		if err := submit(m.ID, m.From, m.OrigFrom, rcpts, orig, sc.UTF8, hdr, []byte("body of "+m.ID+"\r\n"), m.Ehlo); err != nil {
			t.Fatalf("harness: queue refused the message: %v", err)
		}
	}
	idle, names := waitIdle(dir, 120*time.Second)
	if !idle {
		c.Inconclusive(fmt.Sprintf("queue did not drain within the watchdog; spool: %v", names))
		c.Done("undrained", false)
		return
	}

	phase1 := lg.Events()

	// ---- loop clause: feed every delivered report back into the queue; it fails; nothing more may be generated
	loopSubmitted := 0
	if sc.Loop {
		loopMu.Lock()
		loopPhase = true
		loopMu.Unlock()
		for _, s := range mx.Summaries(phase1) {
			if s.Target != "bounce" || s.BodyKind == "" || s.Commit != mx.OK || len(s.Accepted) == 0 {
				continue
			}
			hdr, err := textproto.ReadHeader(bufio.NewReader(bytes.NewReader(s.Header)))
			if err != nil {
				continue // judged as malformed below
			}
			loopSubmitted++
			id := fmt.Sprintf("loop%dc%d", loopSubmitted, ci)
			of := ""
			if s.StartMeta != nil {
				of = s.StartMeta.OriginalFrom
			}
			if err := submit(id, s.From, of, s.Accepted, nil, s.StartMeta != nil && s.StartMeta.UTF8, hdr, s.Body, ""); err != nil {
				t.Fatalf("harness: queue refused the re-injected report: %v", err)
			}
		}
		idle, names = waitIdle(dir, 120*time.Second)
		if !idle {
			c.Inconclusive(fmt.Sprintf("queue did not drain within the watchdog (loop phase); spool: %v", names))
			c.Done("undrained", false)
			return
		}
	}
	q.Close()
	closed = true
	all := lg.Events()
	phase2 := all[len(phase1):]

	scen := describe(sc)
	viol := func(sig, what string, w witness) {
		w.Scenario = scen
		if w.Log == nil {
			w.Log = tail(lg.Strings(0), 80)
		}
		c.Violation(sig, what, w)
	}

	// ---- crash freedom of the report path
	if pn := capture.panics(); len(pn) > 0 {
		capture.mu.Lock()
		capture.lines = nil
		capture.mu.Unlock()
		viol("no-panic/queue-dispatch-panicked/"+bounceShape(sc), "the queue recovered from a panic while handling this case: "+first(pn[0], 300), witness{Observed: pn})
	}
	for _, nme := range names {
		if strings.HasSuffix(nme, ".meta_broken") {
			viol("no-panic/message-marked-broken/"+bounceShape(sc), "spool contains "+nme, witness{})
		}
	}

	if sc.QDebug {
		r.Count("queues_with_debug_logging_on", 1)
		r.Count("queue_debug_log_lines", qlog.debugLines.Load())
	}

	// ---- group B: the recipients the queue handed to its target must be the ones the harness's
	// model of the generated pipeline configuration predicts; if not, the expectation below
	// would be built on sand (a pipeline that rewrites differently is C04/C09's subject)
	if groupB {
		for _, s := range mx.Summaries(phase1) {
			if s.Target != "main" {
				continue
			}
			var m *msgPlan
			for _, x := range sc.Msgs {
				if x.ID == origID(s.MsgID) {
					m = x
				}
			}
			if m == nil {
				continue
			}
			planned := map[string]bool{}
			for _, rp := range m.Rcpts {
				planned[rp.EffSpell] = true
			}
			seen := append([]string{}, s.Accepted...)
			for a := range s.Refused {
				seen = append(seen, a)
			}
			for _, a := range seen {
				if !planned[a] {
					c.Inconclusive(fmt.Sprintf("the pipeline handed the queue recipient %q for message %s, which the harness's model of this configuration does not predict (planned %v)\n%s", a, m.ID, keysOf(planned), sc.pipe.text))
					c.Done("model-mismatch", false)
					return
				}
			}
		}
	}

	// ---- expected reports from the observed history of the main target
	expected := expectedReports(sc, phase1)
	nExp := 0
	for _, e := range expected {
		if e.msg.Sender != nil {
			nExp++
			nm := 0
			for id := range e.rcpts {
				if sc.merged[id] {
					nm++
				}
			}
			if nm >= 2 && !sc.NoBounce {
				r.Count("failure_sets_with_two_originals_rewritten_to_one_failed_target", 1)
			}
		}
	}

	// ---- a queue without a bounce { } block cannot report anything; what is left to judge is
	// that it drained and did not crash on the way (both judged above)
	if sc.NoBounce {
		r.Count("queues_without_bounce_block", 1)
		r.Count("failure_sets_in_queues_without_bounce_block", int64(len(expected)))
		c.Done(fmt.Sprintf("no-bounce-block groupB=%v utf8=%v msgs=%d exp=%d", groupB, sc.UTF8, len(sc.Msgs), min(len(expected), 4)), len(expected) > 0)
		return
	}

	// ---- observed bounce deliveries
	var bounces []*mx.DeliverySummary
	for _, s := range mx.Summaries(phase1) {
		if s.Target == "bounce" {
			bounces = append(bounces, s)
		}
	}
	startEvents := 0
	for _, e := range phase1 {
		if e.Target == "bounce" && e.Kind == "start" {
			startEvents++
		}
	}
	r.Count("reports_started", int64(startEvents))
	r.Count("reports_expected", int64(nExp))
	r.Count("recipients_addressed_to_another_recipients_rewrite_target", int64(sc.chainedRcpts))

	senderOf := map[int]*msgPlan{}
	for _, m := range sc.Msgs {
		if m.Sender != nil {
			senderOf[m.Sender.id] = m
		}
		if m.FromAlt != nil {
			senderOf[m.FromAlt.id] = m
		}
	}

	floating := map[*msgPlan]int{}
	uncorrelated := 0
	for _, b := range bounces {
		if b.From != "" {
			viol("envelope/return-path-not-null", fmt.Sprintf("report was started with MAIL FROM %q", b.From), witness{})
		}
		if b.StartClass != mx.OK {
			uncorrelated++
			r.Count("reports_refused_at_start", 1)
			continue
		}
		var rc []string
		rc = append(rc, b.Accepted...)
		for a := range b.Refused {
			rc = append(rc, a)
		}
		if len(rc) != 1 {
			viol("envelope/recipient-count-not-1", fmt.Sprintf("report addressed to %d recipients: %q", len(rc), rc), witness{})
			if len(rc) == 0 {
				uncorrelated++
				continue
			}
		}
		id, how := sc.addrs.lookup(rc[0])
		m := senderOf[id]
		if how == "respelled" && m != nil {
			// the mailbox is recognisable, but this is not the address the sender gave in MAIL FROM:
			// a local part is opaque, a report sent to another spelling of it need not reach the sender
			viol("envelope/sender-local-part-respelled/"+sc.addrs.kind[id], fmt.Sprintf("report addressed to %+q, the sender of message %s is %+q / %+q: the local part is not the one the sender used", rc[0], m.ID, m.OrigFrom, m.From), witness{Message: m.ID})
		} else if how == "unknown" || m == nil {
			viol("envelope/not-addressed-to-sender", fmt.Sprintf("report addressed to %q, which is not the sender of any message of this case", rc[0]), witness{})
			uncorrelated++
			continue
		} else {
			r.Count("report_envelope_recipient_"+how, 1)
			r.Count("report_envelope_recipient_local_kind_"+sc.addrs.kind[id], 1)
		}
		if b.BodyKind == "" {
			floating[m]++
			r.Count("reports_refused_at_rcpt", 1)
			continue
		}
		r.Count("reports_parsed", 1)
		if sc.QDebug {
			r.Count("reports_parsed_from_queues_with_debug_logging_on", 1)
		}
		if !pureASCII(sc.AutogenDomain) {
			r.Count("reports_parsed_with_idn_autogenerated_msg_domain", 1)
		}
		{
			flag := "non_smtputf8"
			if sc.UTF8 {
				flag = "smtputf8"
			}
			if sc.AutogenSpelling != "ascii" {
				r.Count("reports_parsed_"+flag+"_autogenerated_msg_domain_"+sc.AutogenSpelling, 1)
			}
			if sc.HostnameSpelling != "ascii" {
				r.Count("reports_parsed_"+flag+"_hostname_"+sc.HostnameSpelling, 1)
			}
		}
		if groupB {
			r.Count("pipeline_reports_parsed", 1)
		}
		rp := mx.ParseReport(b.Header, b.Body)
		if m.Ehlo != "" {
			r.Count("reports_parsed_of_message_with_ehlo_name_"+m.EhloClass, 1)
			if rp.PerMsg != nil && rp.PerMsg.Get("Received-From-Mta") != "" {
				r.Count("reports_with_received_from_mta", 1)
			} else {
				r.Count("reports_without_received_from_mta_although_ehlo_name_known(not judged)", 1)
			}
		}
		judgeReport(r, sc, m, b, rp, expected, viol)
	}

	// ---- every terminal failure set is reported once, and nothing else is
	unmatched := map[*msgPlan]int{}
	totalUnmatched := 0
	for _, e := range expected {
		if e.msg.Sender == nil {
			continue
		}
		if !e.matched {
			unmatched[e.msg]++
			totalUnmatched++
		}
	}
	totalFloating := 0
	for m, n := range floating {
		totalFloating += n
		if n > unmatched[m] {
			viol("exactly-once/extra-report", fmt.Sprintf("message %s: %d report deliveries without a body but only %d unreported terminal failure sets", m.ID, n, unmatched[m]), witness{Message: m.ID})
		}
	}
	if totalUnmatched > totalFloating+uncorrelated {
		var miss []string
		for _, e := range expected {
			if e.msg.Sender != nil && !e.matched {
				miss = append(miss, fmt.Sprintf("%s attempt %d rcpts %v", e.msg.ID, e.attempt, keys(e.rcpts)))
			}
		}
		viol("exactly-once/report-missing/"+bounceShape(sc), fmt.Sprintf("%d terminal failure set(s) were never reported (report deliveries that could not be attributed: %d): %v", totalUnmatched-totalFloating-uncorrelated, totalFloating+uncorrelated, miss), witness{Expected: miss})
	} else if totalUnmatched < totalFloating+uncorrelated {
		viol("exactly-once/extra-report", fmt.Sprintf("%d report deliveries more than terminal failure sets", totalFloating+uncorrelated-totalUnmatched), witness{})
	}
	// null-sender messages: nothing may be addressed anywhere for them (counted through the totals above);
	nullFailed := 0
	for _, e := range expected {
		if e.msg.Sender == nil {
			nullFailed++
		}
	}
	r.Count("null_sender_failure_sets", int64(nullFailed))

	// ---- loop phase: no report about a report
	if sc.Loop {
		r.Count("reports_reinjected", int64(loopSubmitted))
		failedLoop := 0
		for _, e := range phase2 {
			if e.Target == "main" && e.Kind == "addrcpt" && e.Class != mx.OK {
				failedLoop++
			}
			if e.Target == "bounce" && e.Kind == "start.call" {
				viol("no-loop/report-about-a-report", "a report that could not be delivered produced another report", witness{Log: tail(lg.Strings(0), 60)})
				break
			}
		}
		r.Count("reinjected_reports_failed", int64(failedLoop))
	}

	// ---- evidence
	nonTrivial := nExp > 0 || nullFailed > 0
	if groupB {
		r.Distinct("queue_config_shapes", sc.pipe.queueShape)
		r.Distinct("pipeline_config_shapes", sc.pipe.pipeShape)
	}
	shape := fmt.Sprintf("groupB=%v debug=%v ", groupB, sc.QDebug)
	shape += fmt.Sprintf("utf8=%v partial=%v tries=%d bounce=%s loop=%v msgs=%d exp=%d null=%d", sc.UTF8, sc.Partial, sc.MaxTries, sc.BounceFail, sc.Loop && loopSubmitted > 0, len(sc.Msgs), min(nExp, 4), min(nullFailed, 2))
	for _, e := range expected {
		shape += fmt.Sprintf("|a%d:%d", e.attempt, len(e.rcpts))
	}
	if ci < 3 {
		r.Sample(map[string]any{"case": c.ID, "scenario": scen, "expected_reports": nExp, "bounce_starts": startEvents})
	}
	c.Done(shape, nonTrivial)
}

func bounceShape(sc *scenario) string {
	if sc.BounceFail == "" {
		return "bounce=ok"
	}
	return "bounce-fails-at=" + sc.BounceFail
}

func first(s string, n int) string {
	if len(s) > n {
		return s[:n]
	}
	return s
}

func tail(s []string, n int) []string {
	if len(s) > n {
		return s[len(s)-n:]
	}
	return s
}

func keysOf(m map[string]bool) []string {
	var out []string
	for k := range m {
		out = append(out, k)
	}
	sort.Strings(out)
	return out
}

func keys(m map[int][]*errSpec) []int {
	var out []int
	for k := range m {
		out = append(out, k)
	}
	sort.Ints(out)
	return out
}

func describe(sc *scenario) string {
	var b strings.Builder
	fmt.Fprintf(&b, "utf8=%v max_tries=%d partial=%v hostname=%s bounce_fail=%s/%s loop=%v debug=%v autogenerated_msg_domain=%s bounce_block=%v;", sc.UTF8, sc.MaxTries, sc.Partial, sc.Hostname, sc.BounceFail, sc.BounceClass, sc.Loop, sc.QDebug, sc.AutogenDomain, !sc.NoBounce)
	if sc.pipe != nil {
		fmt.Fprintf(&b, " QUEUE CONFIG:\n%s\nPIPELINE CONFIG:\n%s\nREFERENCED TABLES:\n%s\n", sc.pipe.queueText, sc.pipe.text, sc.pipe.tablesText)
	}
	for _, m := range sc.Msgs {
		fmt.Fprintf(&b, " msg %s from=%q orig_from=%q ehlo=%q rcpts=[", m.ID, m.From, m.OrigFrom, m.Ehlo)
		for _, rp := range m.Rcpts {
			if rp.Orig != nil {
				fmt.Fprintf(&b, "%q(client used %q) ", rp.EffSpell, rp.OrigSpell)
			} else {
				fmt.Fprintf(&b, "%q ", rp.EffSpell)
			}
		}
		b.WriteString("]")
	}
	return b.String()
}

// expectedReports replays the observed history of the main target: for every
// attempt of every message, the last error each pending recipient met in
// that attempt, and from it the set that failed terminally in that attempt.
func expectedReports(sc *scenario, events []mx.Event) []*expReport {
	var out []*expReport
	byMsg := map[string][]*mx.DeliverySummary{}
	for _, s := range mx.Summaries(events) {
		if s.Target == "main" {
			id := origID(s.MsgID)
			byMsg[id] = append(byMsg[id], s)
		}
	}
	for _, m := range sc.Msgs {
		pending := []rcptPlan{}
		pending = append(pending, m.Rcpts...)
		tries := map[string]int{}
		hist := map[string][]*errSpec{} // effective recipient -> its last error in each earlier attempt
		for ai, att := range byMsg[m.ID] {
			att.Attempt = ai + 1
			if len(pending) == 0 {
				break
			}
			last := map[string]*errSpec{}
			get := func(stage, rcpt string) *errSpec {
				return sc.faults[fmt.Sprintf("%s|%d|%s|%s", m.ID, att.Attempt, stage, rcpt)]
			}
			if att.StartClass != mx.OK {
				e := get(mx.StStart, "")
				for _, rp := range pending {
					last[rp.EffSpell] = e
				}
			} else {
				accepted := map[string]bool{}
				for _, a := range att.Accepted {
					accepted[a] = true
				}
				for _, rp := range pending {
					if !accepted[rp.EffSpell] {
						last[rp.EffSpell] = get(mx.StRcpt, rp.EffSpell)
					}
				}
				if att.BodyKind != "" {
					if att.BodyClass != mx.OK {
						e := get(mx.StBody, "")
						for a := range accepted {
							last[a] = e
						}
					} else {
						for a := range att.Status {
							last[a] = get(mx.StStatus, a)
						}
					}
				}
				if att.Commit != "" && att.Commit != mx.OK {
					// A failing Commit concerns the recipients that were going
					// to be committed; a recipient that already got its own
					// (per-recipient) failure in this attempt keeps it as its
					// last status (same reading as C01; queue fix a330894).
					e := get(mx.StCommit, "")
					for a := range accepted {
						if last[a] == nil {
							last[a] = e
						}
					}
				}
			}
			exp := &expReport{msg: m, attempt: att.Attempt, rcpts: map[int][]*errSpec{}, prior: map[int][]*errSpec{}}
			var next []rcptPlan
			for _, rp := range pending {
				e := last[rp.EffSpell]
				if e == nil {
					continue // delivered
				}
				if e.terminal() || tries[rp.EffSpell]+1 >= sc.MaxTries {
					id := rp.Eff.id
					if rp.Orig != nil {
						id = rp.Orig.id
					}
					exp.rcpts[id] = append(exp.rcpts[id], e)
					exp.prior[id] = append(exp.prior[id], hist[rp.EffSpell]...)
					continue
				}
				tries[rp.EffSpell]++
				hist[rp.EffSpell] = append(hist[rp.EffSpell], e)
				next = append(next, rp)
			}
			pending = next
			if len(exp.rcpts) > 0 {
				out = append(out, exp)
			}
		}
	}
	return out
}

var tokRe = regexp.MustCompile(`tok[0-9]{4,}`)

// judgeStale: "with their last status codes" for histories of several
// attempts. When the error that made the recipient fail terminally carries no
// SMTP status (plain Go error, marker error), the queue invents a generic one
// (toSMTPErr: 554 5.0.0 or 451 4.0.0 "Internal server error"); the report
// must then not show what an EARLIER attempt of that recipient ended with.
// Stale = every candidate last error is without SMTP status and the reported
// group reproduces an annotated error of an earlier attempt: its code and
// enhanced code (unless they coincide with one of the two generic pairs, then
// the codes prove nothing) or the per-fault token of its text (the generator
// numbers every injected error, "tokNNNN", and the generic text has none).
// Returns true when a violation was reported (the group is not judged further).
func judgeStale(r *rep.Reporter, g mx.ReportRcpt, cands, prior []*errSpec, report func(what string)) bool {
	if len(cands) == 0 {
		return false
	}
	for _, e := range cands {
		if e.Annotated {
			return false
		}
	}
	nAnn := 0
	for _, pe := range prior {
		if !pe.Annotated {
			continue
		}
		nAnn++
		enh := pe.Enh
		if pe.NoEnh {
			enh = [3]int{pe.Code / 100, 0, 0}
		}
		generic := (pe.Code == 554 && enh == [3]int{5, 0, 0}) || (pe.Code == 451 && enh == [3]int{4, 0, 0})
		if !generic && g.DiagCode == pe.Code && g.DiagEnh == enh {
			report(fmt.Sprintf("the report shows %d %d.%d.%d, which is what an earlier attempt ended with; the attempt in which the recipient failed terminally ended with an error without SMTP status", pe.Code, enh[0], enh[1], enh[2]))
			return true
		}
		if tok := tokRe.FindString(pe.Text); tok != "" && strings.Contains(g.DiagText, tok) {
			report(fmt.Sprintf("Diagnostic-Code quotes the reply text of an earlier attempt (%s); the attempt in which the recipient failed terminally ended with an error without SMTP status", tok))
			return true
		}
	}
	if nAnn > 0 {
		r.Count("status_checked_statusless_last_error_after_annotated_earlier_attempt", 1)
		for _, e := range cands {
			r.Count("status_checked_statusless_last_error_after_annotated_earlier_attempt_last_"+e.Class, 1)
		}
	} else if len(prior) > 0 {
		r.Count("status_checked_statusless_last_error_after_statusless_earlier_attempt", 1)
	}
	return false
}

// count8bitText: the last error of a listed recipient was a next hop reply
// (code + text) whose text has octets outside of ASCII; counted per text
// class and per SMTPUTF8 flag of the failed message.
func count8bitText(r *rep.Reporter, sc *scenario, e *errSpec) {
	if pureASCII(e.Text) {
		return
	}
	flag := "non_smtputf8"
	if sc.UTF8 {
		flag = "smtputf8"
	}
	r.Count("reply_text_8bit_in_"+flag+"_report", 1)
	r.Count("reply_text_"+e.TextKind+"_in_"+flag+"_report", 1)
}

func stripWS(s string) string {
	return strings.Join(strings.Fields(s), "")
}

func judgeReport(r *rep.Reporter, sc *scenario, m *msgPlan, b *mx.DeliverySummary, rp *mx.Report, expected []*expReport, viol func(sig, what string, w witness)) {
	raw := string(b.Header) + string(b.Body)
	w := witness{Message: m.ID, Report: first(raw, 6000)}
	for _, pr := range rp.Problems {
		viol("well-formed/"+pr, "the report handed to the bounce target is not a well-formed multipart/report: "+pr, w)
	}
	judgeOctets(r, sc, m, b, rp, viol, w)
	if len(rp.Problems) > 0 && len(rp.Rcpts) == 0 {
		return
	}
	r.Count("recipient_groups", int64(len(rp.Rcpts)))

	// --- recipients: classes of the listed addresses
	obs := map[int]int{}
	bad := false
	ids := make([]int, len(rp.Rcpts))
	for gi, g := range rp.Rcpts {
		id, how := sc.addrs.lookup(g.Addr)
		ids[gi] = id
		switch how {
		case "unknown":
			viol("recipients/unknown-address", fmt.Sprintf("Final-Recipient %q is not a spelling of any address of this case", g.Addr), w)
			bad = true
			continue
		case "respelled":
			// The domain may be shown in either IDNA form; the local part is opaque to everyone but
			// the final host and must be shown octet for octet as the sender wrote it (RFC 3464 2.3.2
			// "the case of alphabetic characters in the address MUST be preserved", RFC 6531 3.2: no
			// normalisation of local parts) - "under the addresses the sender originally used".
			// The group is still attributed to its mailbox so that the rest of the report is judged.
			viol("recipients/local-part-respelled/"+sc.addrs.kind[id], fmt.Sprintf("Final-Recipient %+q names a mailbox of this case with another local part than the sender used (case folded, normalised or otherwise re-spelled)", g.Addr), w)
		case "requoted":
			// RFC 5321 4.1.2: the quoted and the unquoted form of the same content are equivalent
			r.Count("final_recipient_requoted(accepted)", 1)
		default:
			r.Count("final_recipient_local_part_exact", 1)
			r.Count("final_recipient_local_kind_"+sc.addrs.kind[id], 1)
			if sc.UTF8 {
				r.Count("final_recipient_local_kind_"+sc.addrs.kind[id]+"_in_eai_report", 1)
			}
		}
		if sc.effOnly[id] {
			viol("recipients/rewrite-target-disclosed", fmt.Sprintf("Final-Recipient %q is the address a recipient was rewritten to, not the one the sender used", g.Addr), w)
			bad = true
			continue
		}
		obs[id]++
		if g.Action != "failed" {
			viol("recipients/action-not-failed", fmt.Sprintf("Final-Recipient %q has Action %q", g.Addr, g.Action), w)
		}
	}
	if bad {
		// still consume one expected report of this message so that the totals stay meaningful
		for _, e := range expected {
			if e.msg == m && !e.matched {
				e.matched = true
				break
			}
		}
		return
	}
	var match *expReport
	var firstOpen *expReport
	for _, e := range expected {
		if e.msg != m || e.matched {
			continue
		}
		if firstOpen == nil {
			firstOpen = e
		}
		if len(e.rcpts) != len(obs) {
			continue
		}
		same := true
		for id := range e.rcpts {
			if obs[id] == 0 {
				same = false
			}
		}
		if same {
			match = e
			break
		}
	}
	if match == nil {
		if firstOpen == nil {
			viol("exactly-once/extra-report", fmt.Sprintf("message %s: a report although no terminal failure set is left to report (recipient classes %v)", m.ID, obs), w)
			return
		}
		firstOpen.matched = true
		var missing, extra []int
		for id := range firstOpen.rcpts {
			if obs[id] == 0 {
				missing = append(missing, id)
			}
		}
		for id := range obs {
			if _, ok := firstOpen.rcpts[id]; !ok {
				extra = append(extra, id)
			}
		}
		w.Expected = fmt.Sprintf("attempt %d: classes %v", firstOpen.attempt, keys(firstOpen.rcpts))
		w.Observed = fmt.Sprintf("classes %v", obs)
		allMerged := len(missing) > 0 && len(extra) == 0
		for _, id := range missing {
			if !sc.merged[id] {
				allMerged = false
			}
		}
		if allMerged {
			// cause class of its own: two addresses of the sender are rewritten to ONE address, that
			// address fails, and the report names only one of the two
			sort.Ints(missing)
			viol("recipients/terminal-failure-not-listed/original-merged-with-another-into-one-target", fmt.Sprintf("message %s attempt %d: recipient class(es) %v failed terminally (they are rewritten to the same address as another recipient of the message, and that address failed) but are not in the report", m.ID, firstOpen.attempt, missing), w)
		} else if len(missing) > 0 {
			viol("recipients/terminal-failure-not-listed", fmt.Sprintf("message %s attempt %d: recipient class(es) %v failed terminally but are not in the report", m.ID, firstOpen.attempt, missing), w)
		}
		if len(extra) > 0 {
			viol("recipients/listed-without-terminal-failure", fmt.Sprintf("message %s attempt %d: recipient class(es) %v are reported as failed but did not fail terminally in that attempt", m.ID, firstOpen.attempt, extra), w)
		}
		return
	}
	match.matched = true
	r.Count("reports_matched", 1)
	if sc.pipe != nil {
		for id := range match.rcpts {
			k := sc.rwKind[id]
			if k == "" {
				k = "not-rewritten"
			}
			for _, part := range strings.Split(k, ",") {
				r.Count("pipeline_reported_rcpt_"+part, 1)
			}
		}
	}

	// --- status codes
	for gi, g := range rp.Rcpts {
		id := ids[gi]
		cands := match.rcpts[id]
		if !g.StatusOK {
			continue // already reported as malformed
		}
		if !g.HasDiag {
			viol("status/no-diagnostic-code", fmt.Sprintf("recipient %q has no Diagnostic-Code", g.Addr), w)
			continue
		}
		if !g.DiagOK {
			viol("status/diagnostic-code-unparsable", fmt.Sprintf("recipient %q: Diagnostic-Code %q %q is not 'smtp; code a.b.c text'", g.Addr, g.DiagType, first(g.DiagText, 200)), w)
			continue
		}
		if g.Status != g.DiagEnh {
			viol("status/status-differs-from-diagnostic-code", fmt.Sprintf("recipient %q: Status %v but Diagnostic-Code says %v", g.Addr, g.Status, g.DiagEnh), w)
		}
		okAny := false
		var want []string
		if judgeStale(r, g, cands, match.prior[id], func(what string) {
			w2 := w
			w2.Expected = "code, enhanced code and text of the LAST error of that recipient (an error without SMTP status: the queue's generic 554 5.0.0 / 451 4.0.0)"
			w2.Observed = fmt.Sprintf("Status %v, Diagnostic-Code %d %v %q", g.Status, g.DiagCode, g.DiagEnh, first(g.DiagText, 200))
			viol("status/stale-status-from-earlier-attempt", fmt.Sprintf("recipient %q: %s", g.Addr, what), w2)
		}) {
			continue
		}
		for _, e := range cands {
			if e.Annotated && e.NoEnh {
				// basic code only: the report must still exist and show that code
				// with some enhanced code of its class
				want = append(want, fmt.Sprintf("%d %d.x.x", e.Code, e.Code/100))
				if g.DiagCode == e.Code && g.DiagEnh[0] == e.Code/100 && g.Status == g.DiagEnh {
					okAny = true
					r.Count("status_codes_checked_basic_code_only", 1)
					r.Count("status_checked_text_"+e.TextKind, 1)
					count8bitText(r, sc, e)
					if e.Inner != nil {
						r.Count("status_checked_smtp_error_wrapping_another_smtp_error", 1)
					}
				}
			} else if e.Annotated {
				want = append(want, fmt.Sprintf("%d %d.%d.%d", e.Code, e.Enh[0], e.Enh[1], e.Enh[2]))
				if g.DiagCode == e.Code && g.DiagEnh == e.Enh && g.Status == e.Enh {
					okAny = true
					r.Count("status_checked_text_"+e.TextKind, 1)
					count8bitText(r, sc, e)
					if e.Inner != nil {
						r.Count("status_checked_smtp_error_wrapping_another_smtp_error", 1)
					}
					if stripWS(g.DiagText) == stripWS(e.Text) {
						r.Count("diagnostic_text_equal", 1)
					} else {
						r.Count("diagnostic_text_differs(not judged)", 1)
					}
				}
			} else {
				// no status code was given by the target: only self-agreement is judged (C16 judges the class)
				want = append(want, "any (error without SMTP annotation)")
				if g.DiagCode/100 == g.DiagEnh[0] && (g.DiagEnh[0] == 4 || g.DiagEnh[0] == 5) {
					okAny = true
				}
			}
			r.Distinct("last_error_kinds", fmt.Sprintf("%s/annotated=%v/basic-code-only=%v/%s", e.Class, e.Annotated, e.NoEnh, e.TextKind))
		}
		if !okAny {
			sig := "status/not-the-last-error"
			for _, e := range cands {
				if e.Annotated && !e.NoEnh && g.DiagCode == e.Code && g.DiagEnh != e.Enh {
					sig = "status/enhanced-code-lost"
				}
				if e.Inner != nil && (g.DiagCode == e.Inner.Code || g.DiagEnh == e.Inner.Enh || strings.Contains(g.DiagText, e.Inner.Text)) {
					// the report shows (part of) what the error that was returned merely wraps
					sig = "status/status-of-a-wrapped-error"
				}
			}
			w2 := w
			w2.Expected = want
			w2.Observed = fmt.Sprintf("Status %v, Diagnostic-Code %d %v", g.Status, g.DiagCode, g.DiagEnh)
			viol(sig, fmt.Sprintf("recipient %q: report shows Status %d.%d.%d / Diagnostic-Code %d %d.%d.%d, the last error of that recipient was %v", g.Addr, g.Status[0], g.Status[1], g.Status[2], g.DiagCode, g.DiagEnh[0], g.DiagEnh[1], g.DiagEnh[2], want), w2)
		} else {
			r.Count("status_codes_checked", 1)
		}
	}

	// --- original header
	want := mx.UnfoldHeader(m.HeaderRaw)
	got := mx.UnfoldHeader(rp.OrigHeader)
	if sc.pipe != nil && len(got) == len(want)+1 && strings.EqualFold(got[0].Name, "Received") {
		// group B: the first pipeline put its trace field on top of what the client sent
		got = got[1:]
		r.Count("original_headers_with_received_field_of_first_pipeline", 1)
	}
	if len(rp.Parts) >= 3 {
		same := len(want) == len(got)
		if same {
			for i := range want {
				if !strings.EqualFold(want[i].Name, got[i].Name) || want[i].Value != got[i].Value {
					same = false
				}
			}
		}
		if !same {
			w2 := w
			w2.Expected = want
			w2.Observed = got
			viol("original-header/differs", fmt.Sprintf("third part has %d field(s), the original header %d, or a field differs", len(got), len(want)), w2)
		} else {
			r.Count("original_headers_equal", 1)
			if bytes.Equal(bytes.TrimRight(rp.OrigHeader, "\r\n"), bytes.TrimRight(m.HeaderRaw, "\r\n")) {
				r.Count("original_headers_byte_equal", 1)
			}
		}
	}
	r.Distinct("report_kinds", fmt.Sprintf("utf8=%v/%s/%s", sc.UTF8, rp.Parts[1].MediaType, func() string {
		if len(rp.Parts) >= 3 {
			return rp.Parts[2].MediaType
		}
		return "-"
	}()))
	_ = filepath.Join
}

// judgeOctets: well-formedness with respect to the octets a report may
// contain. A report that is handed over WITHOUT the SMTPUTF8 flag is an
// ordinary RFC 5322 message: its header and the MIME headers of its parts are
// 7-bit. A message/delivery-status part is 7-bit whatever the flag says (RFC
// 3464 2.1 "the body of a message/delivery-status is 7bit"); octets outside
// of ASCII in the delivery-status fields need message/global-delivery-status
// (RFC 6533 3), which in turn needs the report to be a SMTPUTF8 message.
// Deliberately NOT judged: the text/plain part (declared 8bit, charset
// utf-8), the third part (the original header is returned as it came),
// whether 8-bit octets of a global-delivery-status part are valid UTF-8 (a
// next hop's Latin-1 reply is copied byte for byte; counted), and the
// agreement of the report's flag with the flag of the failed message.
func judgeOctets(r *rep.Reporter, sc *scenario, m *msgPlan, b *mx.DeliverySummary, rp *mx.Report, viol func(sig, what string, w witness), w witness) {
	meta := b.StartMeta
	if meta == nil {
		meta = b.BodyMeta
	}
	if meta == nil {
		return
	}
	flagged := meta.UTF8
	if b.BodyMeta != nil && b.BodyMeta.UTF8 != flagged {
		// cannot happen with one metadata object per delivery; do not guess
		r.Count("report_smtputf8_flag_changed_between_start_and_body(not judged)", 1)
		return
	}
	statusType := ""
	if len(rp.Parts) >= 2 {
		statusType = rp.Parts[1].MediaType
	}
	fieldClass := func(f string) string {
		if f == "" || len(f) > 40 {
			return "other"
		}
		for i := 0; i < len(f); i++ {
			c := f[i]
			if !(c >= 'a' && c <= 'z' || c >= '0' && c <= '9' || c == '-') {
				return "other"
			}
		}
		return f
	}
	if flagged {
		r.Count("smtputf8_reports_octets_checked", 1)
	} else {
		r.Count("non_smtputf8_reports_octets_checked", 1)
	}
	for _, f := range rp.Header8bit {
		if flagged {
			r.Count("smtputf8_reports_with_8bit_header_field_"+fieldClass(f), 1)
			continue
		}
		if f == "to" && !pureASCII(m.OrigFrom) {
			// Harness artefact, not judged: To: is MsgMeta.OriginalFrom, which the endpoint sets to the
			// argument of MAIL FROM as the client sent it; a client without SMTPUTF8 cannot send a
			// non-ASCII address (550 5.6.7), so outside of this harness (which hands the queue U-label
			// senders for messages without SMTPUTF8 to exercise the report's RCPT) it is ASCII here.
			r.Count("non_smtputf8_report_to_field_8bit_because_harness_gave_u_label_sender(not judged)", 1)
			continue
		}
		viol("well-formed/8bit-header-field-in-report-without-smtputf8/"+fieldClass(f), fmt.Sprintf("the report is handed over without the SMTPUTF8 flag but its header field %q contains octets outside of ASCII", f), w)
	}
	for _, f := range rp.PartHeader8bit {
		if !flagged {
			viol("well-formed/8bit-mime-part-header-in-report-without-smtputf8", fmt.Sprintf("the report is handed over without the SMTPUTF8 flag but the MIME header %q contains octets outside of ASCII", f), w)
		}
	}
	for _, f := range rp.Status8bit {
		switch {
		case statusType != "message/global-delivery-status":
			viol("well-formed/8bit-in-message-delivery-status/"+fieldClass(f), fmt.Sprintf("the %s part (7-bit by definition) has octets outside of ASCII in field %q; report flagged SMTPUTF8: %v", statusType, f, flagged), w)
		case !flagged:
			viol("well-formed/global-delivery-status-with-8bit-in-report-without-smtputf8/"+fieldClass(f), fmt.Sprintf("message/global-delivery-status with octets outside of ASCII in field %q in a report handed over without the SMTPUTF8 flag", f), w)
		default:
			r.Count("smtputf8_reports_with_8bit_delivery_status_field_"+fieldClass(f), 1)
		}
	}
	if len(rp.Status8bit) > 0 && flagged && statusType == "message/global-delivery-status" && len(rp.Parts) >= 2 && !utf8.Valid(rp.Parts[1].Body) {
		r.Count("smtputf8_reports_with_invalid_utf8_in_global_delivery_status(not judged)", 1)
	}
}

func pureASCII(s string) bool {
	for i := 0; i < len(s); i++ {
		if s[i] >= 0x80 {
			return false
		}
	}
	return true
}
