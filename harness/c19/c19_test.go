//go:build verif

// Package c19 monitors property C19: a pooled outbound connection is handed to
// at most one delivery at a time, never after it was closed, after it exceeded
// its idle lifetime or after the pool was shut down; every connection returned
// to a live pool is eventually handed out again or closed exactly once; gets,
// returns, sweeps and shutdown never crash or block forever.
//
// The pool (internal/smtpconn/pool) is driven directly with instrumented fake
// connections. pool.go is rewritten at build time: a yield point before every
// lock/channel/go statement and verifkit.Now instead of time.Now.
//
// Case index ranges (a case is identified by seed, tier, index):
//
//	        0 ...  d=0 (random yields / yield bookkeeping off)
//	1_000_000 ...  d=1: every pool.go site x occurrence 1..4 x repetitions
//	2_000_000 ...  d=2: every pair of pool.go (site, occurrence) points x repetitions
//	3_000_000 ...  porcupine cross-check of no-expiry histories
//	4_000_000 ...  own-ticker cases: every pool.go site x occurrence 1..2 x repetitions, a
//	               shutdown in the middle, the pool's own clean-up ticker fired when the
//	               planned point was reached and from inside pool.Close's closes (ticks_test.go)
package c19

import (
	"context"
	"encoding/json"
	"fmt"
	"os"
	"path/filepath"
	"runtime"
	"sort"
	"strings"
	"sync"
	"testing"
	"time"

	"github.com/foxcpp/maddy/internal/smtpconn/pool"
	"verifkit"
	"verifkit/prng"
	"verifkit/rep"
)

const (
	baseD0   = 0
	baseD1   = 1_000_000
	baseD2   = 2_000_000
	basePorc = 3_000_000
)

var vbase = time.Unix(1_700_000_000, 0)

type instrEnv struct {
	sites   []string
	vclock  bool
	vticker bool
}

func detectInstrumentation() instrEnv {
	var env instrEnv
	bdir := os.Getenv("VERIF_BUILD")
	if bdir == "" {
		return env
	}
	var sites []struct {
		Site string `json:"site"`
		File string `json:"file"`
		Line int    `json:"line"`
	}
	if b, err := os.ReadFile(filepath.Join(bdir, "sites.json")); err == nil {
		json.Unmarshal(b, &sites)
	}
	sort.SliceStable(sites, func(i, j int) bool { return sites[i].Line < sites[j].Line })
	for _, s := range sites {
		if strings.HasSuffix(s.File, "internal/smtpconn/pool/pool.go") {
			env.sites = append(env.sites, s.Site)
		}
	}
	// vclock: the instrumented copy must not call time.Now any more
	if b, err := os.ReadFile(filepath.Join(bdir, "instr", "internal__smtpconn__pool__pool.go")); err == nil {
		env.vclock = strings.Contains(string(b), "verifkit.Now()") && !strings.Contains(string(b), "time.Now()")
		// vticker: the pool's own clean-up ticker must be the virtual one
		env.vticker = strings.Contains(string(b), "verifkit.NewTicker(") && !strings.Contains(string(b), "time.NewTicker(") && !strings.Contains(string(b), "time.Tick(") && !strings.Contains(string(b), "time.After(") && !strings.Contains(string(b), "time.NewTimer(")
	}
	return env
}

// ---- scenario ---------------------------------------------------------------

type poolCfg struct {
	MaxKeys  int   `json:"max_keys"`
	MaxConns int   `json:"max_conns_per_key"`
	LifeSec  int64 `json:"max_conn_lifetime_sec"`
	StaleSec int64 `json:"stale_key_lifetime_sec"`
	WithNew  bool  `json:"with_new"` // Config.New set (creates connections) instead of the default (nil, nil)
}

type op struct {
	Kind  string `json:"kind"`            // cycle | cleanup | advance | close | tick
	When  string `json:"when,omitempty"`  // tick: now | hit (a planned delay point was reached) | close (the shutdown was requested)
	N     int    `json:"n,omitempty"`     // tick: ticks in a row
	Key   int    `json:"key,omitempty"`   // cycle
	Break bool   `json:"break,omitempty"` // cycle: the connection dies while idle (Usable()=false after the return)
	Drop  bool   `json:"drop,omitempty"`  // cycle: the delivery closes the connection itself instead of returning it
	Adv   int    `json:"adv,omitempty"`   // advance (or before a cycle's Get): seconds the virtual clock moves
}

type scenario struct {
	Cfg     poolCfg  `json:"cfg"`
	NKeys   int      `json:"n_keys"`
	Workers [][]op   `json:"workers"`
	HasShut bool     `json:"has_shutdown"`
	NoExp   bool     `json:"no_expiry,omitempty"`
	Tick    *tickCfg `json:"tick,omitempty"` // own-ticker dimensions (ticks_test.go)
}

func genScenario(p *prng.R) scenario {
	var sc scenario
	sc.NKeys = p.Range(1, 3)
	sc.Cfg = poolCfg{MaxKeys: p.Range(1, 3), MaxConns: p.Range(1, 2), LifeSec: int64(p.Range(1, 4)), StaleSec: int64(p.Range(1, 5)), WithNew: p.Chance(1, 3)}
	// Boundary configurations from a stream of their own (the draws above stay what they were):
	// conn_max_idle_count 0 (nothing may be kept idle: every returned connection is closed at
	// once), the production defaults 5 / 5000, a single key slot.
	switch px := prng.New(p.Uint64(), 0, "c19-cfg-boundary"); px.Intn(10) {
	case 0, 1:
		sc.Cfg.MaxConns = 0
	case 2:
		sc.Cfg.MaxConns = 5
	case 3:
		sc.Cfg.MaxKeys = 5000
	}
	nw := p.Range(2, 8)
	deliv := nw
	// up to three of the workers are a sweeper, a clock and the closer
	var special []string
	if p.Chance(3, 4) {
		special = append(special, "cleanup")
	}
	if p.Chance(3, 4) {
		special = append(special, "advance")
	}
	if p.Chance(2, 3) {
		special = append(special, "close")
		sc.HasShut = true
	}
	for len(special) >= nw {
		special = special[:len(special)-1]
		sc.HasShut = false
		for _, s := range special {
			if s == "close" {
				sc.HasShut = true
			}
		}
	}
	deliv = nw - len(special)
	for w := 0; w < deliv; w++ {
		var ops []op
		for i, n := 0, p.Range(1, 5); i < n; i++ {
			o := op{Kind: "cycle", Key: p.Intn(sc.NKeys), Break: p.Chance(1, 8), Drop: p.Chance(1, 10)}
			if p.Chance(1, 3) {
				o.Adv = p.Range(1, 2) // time passes before this delivery asks for a connection
			}
			ops = append(ops, o)
		}
		sc.Workers = append(sc.Workers, ops)
	}
	for _, s := range special {
		var ops []op
		switch s {
		case "cleanup":
			for i, n := 0, p.Range(1, 5); i < n; i++ {
				ops = append(ops, op{Kind: "cleanup"})
			}
		case "advance":
			for i, n := 0, p.Range(1, 6); i < n; i++ {
				ops = append(ops, op{Kind: "advance", Adv: p.Range(1, 2)})
			}
		case "close":
			// a few own cycles first so that the shutdown lands in the middle
			for i, n := 0, p.Range(0, 2); i < n; i++ {
				ops = append(ops, op{Kind: "cycle", Key: p.Intn(sc.NKeys)})
			}
			ops = append(ops, op{Kind: "close"})
		}
		sc.Workers = append(sc.Workers, ops)
	}
	return sc
}

// genNoExpiry: the configuration of the porcupine cross-check: nothing expires,
// no sweeps, no shutdown during the history, connections stay usable.
func genNoExpiry(p *prng.R) scenario {
	var sc scenario
	sc.NoExp = true
	sc.NKeys = p.Range(1, 3)
	sc.Cfg = poolCfg{MaxKeys: 8, MaxConns: p.Range(1, 2), LifeSec: 1 << 40, StaleSec: 1 << 40}
	for w, nw := 0, p.Range(2, 8); w < nw; w++ {
		var ops []op
		for i, n := 0, p.Range(2, 5); i < n; i++ {
			ops = append(ops, op{Kind: "cycle", Key: p.Intn(sc.NKeys)})
		}
		sc.Workers = append(sc.Workers, ops)
	}
	return sc
}

func (sc scenario) shape() string {
	var ws []string
	for _, ops := range sc.Workers {
		s := ""
		for _, o := range ops {
			switch o.Kind {
			case "cycle":
				s += fmt.Sprintf("k%d", o.Key)
				if o.Adv > 0 {
					s += fmt.Sprintf("a%d", o.Adv)
				}
				if o.Break {
					s += "b"
				}
				if o.Drop {
					s += "d"
				}
			case "cleanup":
				s += "S"
			case "advance":
				s += fmt.Sprintf("A%d", o.Adv)
			case "close":
				s += "X"
			case "tick":
				s += fmt.Sprintf("T%d%c", o.N, o.When[0])
				if o.Adv > 0 {
					s += "m"
				}
			}
		}
		ws = append(ws, s)
	}
	sort.Strings(ws)
	if tc := sc.Tick; tc != nil {
		ws = append(ws, fmt.Sprintf("tick=%v/%v/%d", tc.SlowClose, tc.InClose, tc.AfterClose))
	}
	return fmt.Sprintf("cfg=%d/%d/%d/%d/%v w=%s", sc.Cfg.MaxKeys, sc.Cfg.MaxConns, sc.Cfg.LifeSec, sc.Cfg.StaleSec, sc.Cfg.WithNew, strings.Join(ws, "|"))
}

// ---- monitor ------------------------------------------------------------------

const (
	stNew          = "new"   // created, owned by its creator, never given to the pool
	stOwned        = "owned" // handed out to a delivery
	stIdle         = "idle"  // given to Return; the pool may hand it out or close it
	stOwnerClosing = "owner-closing"
	stClosed       = "closed"
)

type event struct {
	Seq    int    `json:"seq"`
	Kind   string `json:"kind"`
	Worker int    `json:"w"`
	Key    string `json:"key,omitempty"`
	Conn   int    `json:"conn,omitempty"`
	VNow   int64  `json:"vnow"`
	Info   string `json:"info,omitempty"`
}

type finding struct {
	Sig  string
	What string
}

type monitor struct {
	mu       sync.Mutex
	ev       []event
	conns    []*fconn
	find     []finding
	lifeSec  int64
	closeRet int // seq of pool.Close() having returned (0 = not yet)
	closeCal int // seq of pool.Close() being called
	counts   map[string]int
	tick     *tickCfg // immutable during a run
	ticksOff bool     // immutable during a run: tick features switched off (hangs confirmed earlier in this process)
}

type fconn struct {
	m  *monitor
	id int
	// all fields below are guarded by m.mu
	key        string
	state      string
	closes     int
	closedBy   string
	lastUse    time.Time
	usable     bool
	returns    int // times given to Return
	lastRetSeq int // seq of the latest return.ret (0 while the Return call is running / never returned)
	retCallSeq int // seq of the latest return.call
	handouts   int // times handed out by Get after a Return
}

func (m *monitor) logLocked(kind string, w int, key string, conn int, info string) int {
	e := event{Seq: len(m.ev) + 1, Kind: kind, Worker: w, Key: key, Conn: conn, VNow: verifkit.Now().Unix() - vbase.Unix(), Info: info}
	m.ev = append(m.ev, e)
	m.counts[kind]++
	return e.Seq
}

func (m *monitor) log(kind string, w int, key string, conn int, info string) int {
	m.mu.Lock()
	defer m.mu.Unlock()
	return m.logLocked(kind, w, key, conn, info)
}

func (m *monitor) len() int {
	m.mu.Lock()
	defer m.mu.Unlock()
	return len(m.ev)
}

func (m *monitor) violateLocked(sig, what string) {
	if len(m.find) < 16 {
		m.find = append(m.find, finding{sig, what})
	}
}

func (m *monitor) newConn(key string, w int) *fconn {
	m.mu.Lock()
	defer m.mu.Unlock()
	c := &fconn{m: m, id: len(m.conns) + 1, key: key, state: stNew, usable: true, lastUse: verifkit.Now()}
	m.conns = append(m.conns, c)
	m.logLocked("conn.new", w, key, c.id, "")
	return c
}

// pool.Conn
func (c *fconn) Usable() bool {
	c.m.mu.Lock()
	defer c.m.mu.Unlock()
	c.m.logLocked("conn.usable?", -1, c.key, c.id, fmt.Sprint(c.usable))
	return c.usable
}

func (c *fconn) LastUseAt() time.Time {
	c.m.mu.Lock()
	defer c.m.mu.Unlock()
	c.m.logLocked("conn.lastuse?", -1, c.key, c.id, "")
	return c.lastUse
}

func closerKind() string {
	buf := make([]byte, 4096)
	n := runtime.Stack(buf, false)
	s := string(buf[:n])
	for _, k := range []string{"Return", "Get", "CleanUp", "Close"} {
		if strings.Contains(s, "smtpconn/pool.(*P)."+k) {
			return "pool." + k
		}
	}
	if strings.Contains(s, "smtpconn/pool.") {
		return "pool.other"
	}
	return "delivery"
}

func (c *fconn) Close() error {
	by := closerKind()
	c.m.gate(by) // own-ticker dimensions: tick inside pool.Close's closes, slow closes (no-op otherwise)
	c.m.mu.Lock()
	defer c.m.mu.Unlock()
	c.closes++
	c.m.logLocked("conn.close", -1, c.key, c.id, by+" state="+c.state)
	if by == "pool.Get" && c.state == stIdle {
		switch {
		case !c.usable:
			c.m.counts["pool_get_closed_unusable"]++
		case verifkit.Now().Sub(c.lastUse) > time.Duration(c.m.lifeSec)*time.Second:
			c.m.counts["pool_get_closed_expired"]++
		default:
			c.m.counts["pool_get_closed_with_bucket"]++
		}
	}
	if c.closes > 1 {
		c.m.violateLocked("closed-more-than-once/by="+by+"+"+c.closedBy, fmt.Sprintf("connection %d closed %d times (by %s, earlier by %s)", c.id, c.closes, by, c.closedBy))
		return nil
	}
	switch c.state {
	case stOwnerClosing:
	case stIdle:
	case stOwned:
		c.m.violateLocked("closed-while-handed-out/by="+by, fmt.Sprintf("connection %d was closed by %s while a delivery owns it: it was both handed out and closed", c.id, by))
	case stNew:
		c.m.violateLocked("closed-never-returned/by="+by, fmt.Sprintf("connection %d was closed by %s although it was never given to the pool", c.id, by))
	}
	c.state = stClosed
	c.closedBy = by
	return nil
}

// handOut is called by a delivery worker with what Get returned.
func (m *monitor) handOut(c *fconn, w int, key string, getCallSeq int, getCallVNow time.Time) {
	m.mu.Lock()
	defer m.mu.Unlock()
	if c.returns == 0 {
		// fresh from Config.New
		if c.state != stNew {
			m.violateLocked("handed-out-twice/fresh", fmt.Sprintf("connection %d created by Config.New was handed out in state %s", c.id, c.state))
		}
		c.state = stOwned
		return
	}
	c.handouts++
	m.counts["handout.pooled"]++
	switch c.state {
	case stOwned, stOwnerClosing:
		m.violateLocked("handed-out-while-owned", fmt.Sprintf("connection %d was handed to worker %d while another delivery owns it", c.id, w))
	case stClosed:
		m.violateLocked("handed-out-after-close/closed-by="+c.closedBy, fmt.Sprintf("connection %d was handed out after it had been closed by %s", c.id, c.closedBy))
	case stIdle:
		c.state = stOwned
	}
	if c.key != key {
		m.violateLocked("handed-out-for-other-key", fmt.Sprintf("connection %d of key %s was handed out for key %s", c.id, c.key, key))
	}
	// idle lifetime: judged with the virtual time at which Get was CALLED; the
	// clock only moves forward, so a connection that was too old then was too old
	// at every later instant the pool could have looked at it.
	switch idle := getCallVNow.Sub(c.lastUse); {
	case idle == time.Duration(m.lifeSec)*time.Second:
		m.counts["handout_idle_eq_lifetime"]++
	case idle > 0:
		m.counts["handout_idle_gt_0"]++
	}
	if idle := getCallVNow.Sub(c.lastUse); idle > time.Duration(m.lifeSec)*time.Second {
		m.violateLocked("handed-out-after-idle-lifetime", fmt.Sprintf("connection %d was handed out %v after its last use, idle lifetime is %ds", c.id, idle, m.lifeSec))
	}
	if m.closeRet != 0 && getCallSeq > m.closeRet {
		m.violateLocked("handed-out-after-pool-close", fmt.Sprintf("connection %d was handed out by a Get called after pool.Close() had returned", c.id))
	}
}

// ---- one run --------------------------------------------------------------------

type runResult struct {
	mon       *monitor
	panics    []string
	undecided string
	stuck     string // dump when a logical hang was established
	stuckWhat string
	leaked    []int
	ops       []histOp
}

// histOp is one completed Get/Return for the porcupine history.
type histOp struct {
	Worker int
	Key    string
	Get    bool
	Conn   int // Get: 0 = nothing
	Call   int
	Ret    int
}

func keyName(i int) string { return fmt.Sprintf("mx%d.example.org", i) }

func runScenario(sc scenario, plan planSpec, seed uint64) *runResult {
	res := &runResult{}
	m := &monitor{lifeSec: sc.Cfg.LifeSec, counts: map[string]int{}, tick: sc.Tick}
	m.ticksOff = hangsConfirmed.Load() >= hangsBeforeTicksOff
	res.mon = m
	if hangsConfirmed.Load() >= hangsBeforeSkip {
		// a tree that hangs in a large share of the cases: the verdict is given, do not
		// spend a watchdog period on each of the remaining cases of this process
		res.undecided = fmt.Sprintf("not run: %d logical hangs were already confirmed in this shard process", hangsBeforeSkip)
		return res
	}
	verifkit.SetVirtualClock(vbase)
	plan.install(seed)
	verifkit.ForgetTickers() // tickers leaked by an earlier (hung) case take no part
	_, tkDelivered0, _, _ := verifkit.TickerStats()
	tkDiscarded0 := verifkit.TicksDiscarded()
	defer func() {
		// ticks the pool's own goroutine really received = delivered - discarded by Stop - still pending
		_, d, _, _ := verifkit.TickerStats()
		got := int(d-tkDelivered0) - int(verifkit.TicksDiscarded()-tkDiscarded0) - verifkit.PendingTicks()
		m.mu.Lock()
		m.counts["own_ticker_ticks_received_by_pool"] += got
		m.mu.Unlock()
	}()

	cfg := pool.Config{MaxKeys: sc.Cfg.MaxKeys, MaxConnsPerKey: sc.Cfg.MaxConns, MaxConnLifetimeSec: sc.Cfg.LifeSec, StaleKeyLifetimeSec: sc.Cfg.StaleSec}
	if sc.Cfg.WithNew {
		cfg.New = func(ctx context.Context, key string) (pool.Conn, error) {
			return m.newConn(key, -1), nil
		}
	}
	p := pool.New(cfg)

	var rmu sync.Mutex
	guard := func(w int, what string, fn func()) {
		defer func() {
			if v := recover(); v != nil {
				rmu.Lock()
				res.panics = append(res.panics, what+": "+fmt.Sprint(v))
				rmu.Unlock()
				m.log("panic", w, "", 0, what+": "+fmt.Sprint(v))
			}
		}()
		fn()
	}
	poolClosed := false // guarded by rmu: Close was called by a worker
	doPoolClose := func(w int) {
		rmu.Lock()
		already := poolClosed
		poolClosed = true
		rmu.Unlock()
		if already {
			return
		}
		m.mu.Lock()
		m.closeCal = m.logLocked("pool.close.call", w, "", 0, "")
		m.mu.Unlock()
		guard(w, "pool.Close", func() {
			p.Close()
			m.mu.Lock()
			m.closeRet = m.logLocked("pool.close.ret", w, "", 0, "")
			m.mu.Unlock()
		})
	}

	start := make(chan struct{})
	var wg sync.WaitGroup
	ctx := context.Background()
	for w, ops := range sc.Workers {
		w, ops := w, ops
		wg.Add(1)
		go func() {
			defer wg.Done()
			<-start
			for _, o := range ops {
				switch o.Kind {
				case "advance":
					verifkit.AdvanceClock(time.Duration(o.Adv) * time.Second)
					m.log("clock.advance", w, "", 0, fmt.Sprint(o.Adv))
				case "cleanup":
					m.log("cleanup.call", w, "", 0, "")
					guard(w, "pool.CleanUp", func() {
						p.CleanUp(ctx)
						m.log("cleanup.ret", w, "", 0, "")
					})
				case "close":
					doPoolClose(w)
				case "tick":
					m.runTickOp(w, o)
				case "cycle":
					key := keyName(o.Key)
					if o.Adv > 0 {
						verifkit.AdvanceClock(time.Duration(o.Adv) * time.Second)
						m.log("clock.advance", w, "", 0, fmt.Sprint(o.Adv))
					}
					var c *fconn
					vnow := verifkit.Now()
					callSeq := m.log("get.call", w, key, 0, "")
					ok := false
					// Round 8b: one Get in three is made by a caller whose context is already cancelled
					// (a delivery deadline that expired between two recipient domains). Derived from the
					// operation itself, not drawn, so existing scenarios are not reshuffled. The pinned
					// pool does not look at the context of a Get that finds an idle connection.
					gctx := ctx
					if (o.Key+o.Adv+w+len(key))%3 == 0 {
						cctx, cancel := context.WithCancel(ctx)
						cancel()
						gctx = cctx
						m.mu.Lock()
						m.counts["get_calls_with_cancelled_context"]++
						m.mu.Unlock()
					}
					guard(w, "pool.Get", func() {
						pc, err := p.Get(gctx, key)
						if pc != nil {
							c = pc.(*fconn)
						}
						id := 0
						if c != nil {
							id = c.id
						}
						retSeq := m.log("get.ret", w, key, id, fmt.Sprint(err))
						rmu.Lock()
						res.ops = append(res.ops, histOp{Worker: w, Key: key, Get: true, Conn: id, Call: callSeq, Ret: retSeq})
						rmu.Unlock()
						ok = true
					})
					if !ok {
						continue
					}
					if c != nil {
						m.handOut(c, w, key, callSeq, vnow)
					} else {
						// nothing pooled: the delivery opens a connection of its own
						c = m.newConn(key, w)
						m.mu.Lock()
						c.state = stOwned
						m.mu.Unlock()
					}
					// "use" it: a few scheduling points in which a second owner would be noticed
					runtime.Gosched()
					m.mu.Lock()
					stillMine := c.state == stOwned
					c.lastUse = verifkit.Now()
					if o.Drop && stillMine {
						c.state = stOwnerClosing
					}
					m.mu.Unlock()
					if !stillMine {
						continue // already reported by handOut/Close
					}
					if o.Drop {
						c.Close()
						continue
					}
					m.mu.Lock()
					c.state = stIdle
					c.returns++
					c.lastRetSeq = 0
					if o.Break {
						c.usable = false
					}
					c.retCallSeq = m.logLocked("return.call", w, key, c.id, "")
					rcs := c.retCallSeq
					m.mu.Unlock()
					guard(w, "pool.Return", func() {
						p.Return(key, c)
						m.mu.Lock()
						rs := m.logLocked("return.ret", w, key, c.id, "")
						if c.retCallSeq == rcs {
							c.lastRetSeq = rs
						}
						m.mu.Unlock()
						rmu.Lock()
						res.ops = append(res.ops, histOp{Worker: w, Key: key, Conn: c.id, Call: rcs, Ret: rs})
						rmu.Unlock()
					})
				}
			}
		}()
	}
	close(start)
	done := make(chan struct{})
	go func() { wg.Wait(); close(done) }()
	if !waitDone(done) {
		parked, dump := stuckAnalysis("internal/smtpconn/pool.", "internal/smtpconn/pool.(*P).", m.len)
		if parked {
			hangsConfirmed.Add(1)
			res.stuck, res.stuckWhat = dump, "a Get/Return/CleanUp/Close call"
		} else {
			res.undecided = "workers did not finish within the watchdog, pool goroutines not all parked"
		}
		return res
	}
	// the one shutdown, if no worker did it: "eventually" ends here
	cd := make(chan struct{})
	go func() { doPoolClose(-2); close(cd) }()
	if !waitDone(cd) {
		parked, dump := stuckAnalysis("internal/smtpconn/pool.", "internal/smtpconn/pool.(*P).Close", m.len)
		if parked {
			hangsConfirmed.Add(1)
			res.stuck, res.stuckWhat = dump, "pool.Close"
		} else {
			res.undecided = "pool.Close did not return within the watchdog, pool goroutines not all parked"
		}
		return res
	}
	// a tick after the shutdown: the pool's ticker is stopped (or about to be), nothing may crash
	if sc.Tick != nil {
		for k := 0; k < sc.Tick.AfterClose; k++ {
			m.fireTick(-2, 0, "after_close")
		}
	}
	// Quiescence: every connection whose Return had completed before the
	// shutdown was requested, and that was not handed out again, must end closed
	// (the pool closes in goroutines of its own: wait for them).
	expect := func() []int {
		m.mu.Lock()
		defer m.mu.Unlock()
		var left []int
		for _, c := range m.conns {
			if c.state == stIdle && c.lastRetSeq != 0 && c.lastRetSeq < m.closeCal {
				left = append(left, c.id)
			}
		}
		return left
	}
	// The decision is logical, not timed: as long as a goroutine of the pool
	// package (or a connection Close it started) exists, somebody may still close
	// them; once none is left and the connection is still idle and unclosed it
	// never will be. The watchdog only bounds the wait while such goroutines live.
	poolAlive := func() bool {
		for _, g := range goroutines() {
			if strings.Contains(g.Text, "internal/smtpconn/pool.") || strings.Contains(g.Text, "c19.(*fconn).Close") {
				return true
			}
		}
		return false
	}
	deadline := time.Now().Add(currentWatchdog())
	for i := 0; ; i++ {
		left := expect()
		if len(left) == 0 {
			break
		}
		if i >= 20 {
			if !poolAlive() {
				if left = expect(); len(left) > 0 {
					res.leaked = left
				}
				break
			}
			if time.Now().After(deadline) {
				res.undecided = fmt.Sprintf("connections %v not closed within the watchdog, pool goroutines still alive", left)
				break
			}
		}
		time.Sleep(200 * time.Microsecond)
	}
	return res
}

// ---- verdicts and evidence ------------------------------------------------------------

func judge(c *rep.Case, r *rep.Reporter, ys yieldStats, sc scenario, plan planSpec, res *runResult) (hits int) {
	m := res.mon
	m.mu.Lock()
	evs := append([]event(nil), m.ev...)
	finds := append([]finding(nil), m.find...)
	counts := map[string]int{}
	for k, v := range m.counts {
		counts[k] = v
	}
	closedBy := map[string]int{}
	nconns, nclosed, nReturned := 0, 0, 0
	for _, fc := range m.conns {
		nconns++
		if fc.closes > 0 {
			nclosed++
			closedBy[fc.closedBy]++
		}
		if fc.returns > 0 {
			nReturned++
		}
	}
	m.mu.Unlock()
	wit := func(extra map[string]any) map[string]any {
		w := map[string]any{"scenario": sc, "plan": plan, "events": tailEv(evs, 160), "yield_trace_tail": tail(verifkit.Trace(), 60)}
		for k, v := range extra {
			w[k] = v
		}
		return w
	}
	seen := map[string]bool{}
	for _, f := range finds {
		if !seen[f.Sig] {
			seen[f.Sig] = true
			c.Violation("own/"+f.Sig, f.What, wit(nil))
		}
	}
	for _, pn := range res.panics {
		what := pn
		cls := pn
		if k := strings.Index(pn, ": "); k > 0 {
			cls = pn[:k] + "/" + panicClass(pn[k+2:])
		}
		c.Violation("panic/"+cls, "pool call panicked: "+what, wit(nil))
		break
	}
	if res.stuck != "" {
		c.Violation("blocks-forever", res.stuckWhat+" never returns: every goroutine inside the pool package is parked", wit(map[string]any{"goroutines": res.stuck, "own_tick_goroutine_parked_inside_CleanUp": ownTickParked(res.stuck)}))
	}
	if len(res.leaked) > 0 {
		c.Violation("own/returned-connection-neither-reused-nor-closed", fmt.Sprintf("connections %v were returned to the live pool (Return completed before the shutdown was requested), were not handed out again, the pool is shut down and no pool goroutine is left, yet they were never closed", res.leaked), wit(nil))
	}
	if res.undecided != "" {
		c.Inconclusive(res.undecided)
	}

	r.Count("runs", 1)
	for _, k := range []string{"get.call", "get.ret", "return.call", "return.ret", "cleanup.ret", "clock.advance", "pool.close.ret", "conn.close", "conn.usable?", "conn.lastuse?", "handout.pooled"} {
		r.Count("ev_"+strings.NewReplacer(".", "_", "?", "").Replace(k), int64(counts[k]))
	}
	r.Count("connections", int64(nconns))
	r.Count("connections_returned_to_pool", int64(nReturned))
	r.Count("connections_closed", int64(nclosed))
	for _, k := range []string{"pool_get_closed_unusable", "pool_get_closed_expired", "pool_get_closed_with_bucket", "handout_idle_eq_lifetime", "handout_idle_gt_0", "get_calls_with_cancelled_context"} {
		r.Count(k, int64(counts[k]))
	}
	// own-ticker dimensions
	for k, v := range counts {
		if strings.HasPrefix(k, "ticks_") || strings.HasPrefix(k, "own_ticker_") || strings.HasPrefix(k, "tick_driver_") || k == "slow_closes" || k == "in_close_tick_taken_or_discarded" {
			r.Count(k, int64(v))
		}
	}
	if sc.Tick != nil {
		r.Count("runs_with_own_ticker_dimensions", 1)
		if m.ticksOff {
			r.Count("runs_with_ticks_switched_off_after_hangs", 1)
		}
	}
	if counts["pool.close.ret"] > 0 && sc.HasShut {
		// gets that were called after the shutdown had returned
		after := 0
		closeRet := 0
		for _, e := range evs {
			if e.Kind == "pool.close.ret" {
				closeRet = e.Seq
			}
			if e.Kind == "get.call" && closeRet != 0 {
				after++
			}
		}
		r.Count("gets_after_shutdown", int64(after))
	}
	for k, v := range closedBy {
		r.Count("closed_by_"+strings.ReplaceAll(k, ".", "_"), int64(v))
	}
	if sc.HasShut {
		r.Count("runs_with_concurrent_shutdown", 1)
	}
	// expiry really exercised? (pool closed something from inside Get, or a sweep did)
	hits = ys.collect("pool", plan)
	return hits
}

func violated(res *runResult) bool {
	res.mon.mu.Lock()
	defer res.mon.mu.Unlock()
	return len(res.mon.find) > 0 || len(res.panics) > 0 || res.stuck != "" || len(res.leaked) > 0
}

func tailEv(e []event, n int) []event {
	if len(e) > n {
		return e[len(e)-n:]
	}
	return e
}

func tail(s []string, n int) []string {
	if len(s) > n {
		return s[len(s)-n:]
	}
	return s
}

func TestVerif(t *testing.T) {
	r := rep.Open("C19")
	defer r.Close()
	env := detectInstrumentation()
	if len(env.sites) == 0 {
		t.Fatalf("yield instrumentation of pool.go missing: cannot explore schedules")
	}
	if !env.vclock {
		t.Fatalf("vclock instrumentation of pool.go missing: idle life times cannot be driven")
	}
	if !env.vticker {
		t.Fatalf("vticker instrumentation of pool.go missing: the pool's own clean-up ticker cannot be driven")
	}
	r.Set("vticker_instrumented", env.vticker)
	r.Set("yield_sites_total", len(env.sites))
	r.Set("yield_site_list", env.sites)
	r.Set("vclock_instrumented", env.vclock)
	ys := yieldStats{r: r, total: len(env.sites)}

	one := func(c *rep.Case, p *prng.R, sc scenario, plan planSpec) {
		if c.Index >= baseTick {
			ensureShutdown(&sc)
		}
		// own-ticker dimensions from a stream of their own: the scenario and the plan stay what they were
		addTicks(&sc, prng.New(r.Seed(), uint64(c.Index), "c19/ticks"), plan, c.Index >= baseTick)
		seed := p.Uint64()
		res := runScenario(sc, plan, seed)
		// under ./check replay repeat the recorded case until it shows a violation
		// again: the Go scheduler is perturbed, not controlled
		for i := 1; r.Replaying() && i < 300 && !violated(res); i++ {
			res = runScenario(sc, plan, seed)
		}
		hits := judge(c, r, ys, sc, plan, res)
		if c.Index%997 == 0 {
			r.Sample(map[string]any{"scenario": sc, "plan": plan.String(), "events": res.mon.len()})
		}
		// non-trivial: at least two workers ran concurrently and (d>=1) a planned delay really fired
		nontrivial := len(sc.Workers) >= 2 && (plan.D == 0 || hits >= 1)
		c.Done(sc.shape()+" "+plan.String(), nontrivial)
	}

	n0 := r.N(15000, 400_000)
	for i := 0; i < n0; i++ {
		idx := baseD0 + i
		r.Run(idx, fmt.Sprintf("d0-%d", i), func(c *rep.Case) {
			p := prng.New(r.Seed(), uint64(idx), "c19")
			one(c, p, genScenario(p), stressPlan(p))
		})
	}
	reps1 := r.N(12, 150)
	k := 0
	for _, site := range env.sites {
		for occ := 1; occ <= 4; occ++ {
			for rp := 0; rp < reps1; rp++ {
				idx := baseD1 + k
				k++
				site, occ := site, occ
				r.Run(idx, fmt.Sprintf("d1-%s#%d-r%d", site, occ, rp), func(c *rep.Case) {
					p := prng.New(r.Seed(), uint64(idx), "c19")
					one(c, p, genScenario(p), planSpec{D: 1, Points: []verifkit.PlanPoint{{Site: site, Occ: occ}}})
				})
			}
		}
	}
	r.Set("d1_exhaustive", true)
	r.Set("d1_plans", len(env.sites)*4)
	pairs := pairPlans(env.sites, r.N(2, 4))
	reps2 := r.N(1, 50)
	k = 0
	for _, pr := range pairs {
		for rp := 0; rp < reps2; rp++ {
			idx := baseD2 + k
			k++
			pr := pr
			r.Run(idx, fmt.Sprintf("d2-%s#%d+%s#%d-r%d", pr[0].Site, pr[0].Occ, pr[1].Site, pr[1].Occ, rp), func(c *rep.Case) {
				p := prng.New(r.Seed(), uint64(idx), "c19")
				one(c, p, genScenario(p), planSpec{D: 2, Points: []verifkit.PlanPoint{pr[0], pr[1]}})
			})
		}
	}
	r.Set("d2_exhaustive_pairs", true)
	r.Set("d2_plans", len(pairs))

	// own-ticker cases: shutdown in the middle, planned delay at every site x occurrence 1..2,
	// tick fired when the point was reached and from inside pool.Close's closes
	reps5 := r.N(4, 60)
	k = 0
	for _, site := range env.sites {
		for occ := 1; occ <= 2; occ++ {
			for rp := 0; rp < reps5; rp++ {
				idx := baseTick + k
				k++
				site, occ := site, occ
				r.Run(idx, fmt.Sprintf("tick-%s#%d-r%d", site, occ, rp), func(c *rep.Case) {
					p := prng.New(r.Seed(), uint64(idx), "c19")
					one(c, p, genScenario(p), planSpec{D: 1, Points: []verifkit.PlanPoint{{Site: site, Occ: occ}}})
				})
			}
		}
	}

	runPorcupine(t, r, env, ys)

	verifkit.ResetYield()
	verifkit.DisableVirtualClock()
}
