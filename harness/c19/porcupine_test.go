//go:build verif

package c19

import (
	"fmt"
	"sort"
	"strconv"
	"strings"
	"testing"
	"time"

	"github.com/anishathalye/porcupine"
	"verifkit/prng"
	"verifkit/rep"
)

// Cross-check: the Get/Return history of a configuration in which nothing
// expires (no sweeps, no shutdown before the end, huge life times, usable
// connections) must be linearizable with respect to a per-key bag of bounded
// size: Return adds the connection unless the bag is full (then the pool
// closes it), Get removes some element of the bag or returns nothing.

type porcIn struct {
	Get  bool
	Conn int // Return: the connection given back
}

func bagModel(capacity int) porcupine.Model {
	parse := func(s string) []int {
		if s == "" {
			return nil
		}
		var out []int
		for _, f := range strings.Split(s, ",") {
			n, _ := strconv.Atoi(f)
			out = append(out, n)
		}
		return out
	}
	format := func(b []int) string {
		sort.Ints(b)
		var f []string
		for _, n := range b {
			f = append(f, strconv.Itoa(n))
		}
		return strings.Join(f, ",")
	}
	return porcupine.Model{
		Partition: func(history []porcupine.Operation) [][]porcupine.Operation {
			byKey := map[string][]porcupine.Operation{}
			var keys []string
			for _, o := range history {
				k := o.Metadata.(string)
				if _, ok := byKey[k]; !ok {
					keys = append(keys, k)
				}
				byKey[k] = append(byKey[k], o)
			}
			sort.Strings(keys)
			var out [][]porcupine.Operation
			for _, k := range keys {
				out = append(out, byKey[k])
			}
			return out
		},
		Init: func() interface{} { return "" },
		Step: func(state, input, output interface{}) (bool, interface{}) {
			bag := parse(state.(string))
			in := input.(porcIn)
			if !in.Get {
				for _, id := range bag {
					if id == in.Conn {
						return false, state // the same connection cannot be idle twice
					}
				}
				if len(bag) < capacity {
					return true, format(append(bag, in.Conn))
				}
				return true, state
			}
			got := output.(int)
			if got == 0 {
				return true, state
			}
			for i, id := range bag {
				if id == got {
					nb := append(append([]int{}, bag[:i]...), bag[i+1:]...)
					return true, format(nb)
				}
			}
			return false, state
		},
		Equal: func(a, b interface{}) bool { return a.(string) == b.(string) },
		DescribeOperation: func(input, output interface{}) string {
			in := input.(porcIn)
			if in.Get {
				return fmt.Sprintf("Get -> %v", output)
			}
			return fmt.Sprintf("Return(%d)", in.Conn)
		},
	}
}

func runPorcupine(t *testing.T, r *rep.Reporter, env instrEnv, ys yieldStats) {
	n := r.N(200, 6000)
	for i := 0; i < n; i++ {
		idx := basePorc + i
		r.Run(idx, fmt.Sprintf("porcupine-%d", i), func(c *rep.Case) {
			p := prng.New(r.Seed(), uint64(idx), "c19/porc")
			sc := genNoExpiry(p)
			plan := stressPlan(p)
			if plan.YieldOff {
				plan = planSpec{D: 0, RandOne: 2}
			}
			res := runScenario(sc, plan, p.Uint64())
			hits := judge(c, r, ys, sc, plan, res)
			_ = hits
			if res.undecided != "" || res.stuck != "" {
				c.Done(sc.shape()+" porcupine", false)
				return
			}
			var hist []porcupine.Operation
			for _, o := range res.ops {
				op := porcupine.Operation{ClientId: o.Worker, Input: porcIn{Get: o.Get, Conn: o.Conn}, Call: int64(o.Call), Return: int64(o.Ret), Metadata: o.Key}
				if o.Get {
					op.Input = porcIn{Get: true}
					op.Output = o.Conn
				} else {
					op.Output = 0
				}
				hist = append(hist, op)
			}
			verdict := porcupine.CheckOperationsTimeout(bagModel(sc.Cfg.MaxConns), hist, 60*time.Second)
			r.Count("porcupine_histories", 1)
			r.Count("porcupine_operations", int64(len(hist)))
			switch verdict {
			case porcupine.Ok:
				r.Count("porcupine_ok", 1)
			case porcupine.Unknown:
				c.Inconclusive("porcupine: checker budget (60 s) exhausted")
			case porcupine.Illegal:
				var lines []string
				for _, o := range res.ops {
					if o.Get {
						lines = append(lines, fmt.Sprintf("[%d,%d] w%d %s Get -> %d", o.Call, o.Ret, o.Worker, o.Key, o.Conn))
					} else {
						lines = append(lines, fmt.Sprintf("[%d,%d] w%d %s Return(%d)", o.Call, o.Ret, o.Worker, o.Key, o.Conn))
					}
				}
				sort.Strings(lines)
				c.Violation("porcupine/history-not-linearizable-as-bounded-bag", "the Get/Return history of a no-expiry pool is not linearizable with respect to a per-key bag of bounded size (a connection was handed out that no linearization has idle in the pool)",
					map[string]any{"scenario": sc, "plan": plan, "history": lines, "capacity": sc.Cfg.MaxConns})
			}
			c.Done(sc.shape()+" porcupine", len(hist) >= 4)
		})
	}
}
