//go:build verif

package c19

import (
	"fmt"
	"runtime"
	"strings"
	"sync/atomic"
	"time"

	"verifkit"
	"verifkit/prng"
)

// The pool's OWN clean-up goroutine (cleanUpTick, started by pool.New) selects
// on a one-minute ticker and on the stop channel of Close. pool.go is built with
// the instrumentation kind "vticker": time.NewTicker is verifkit.NewTicker and
// the ticker created under the virtual clock never fires on its own; the
// harness fires it (verifkit.FireTickers / AdvanceClockAndFire) at logical
// points: whenever the tick driver gets to run, when a planned delay point was
// reached (the delayed goroutine sits at a yield point of Get / Return /
// CleanUp / Close), when the shutdown was requested, from inside the Close of
// an idle connection that pool.Close is closing, and after the shutdown.

const baseTick = 4_000_000

type tickCfg struct {
	SlowClose  bool `json:"slow_close,omitempty"`  // a Close called by the pool is held at a logical gate (other goroutines get to run first)
	InClose    bool `json:"in_close,omitempty"`    // while pool.Close closes an idle connection the own ticker ticks; the connection's Close returns only after the tick was taken (or the ticker stopped)
	AfterClose int  `json:"after_close,omitempty"` // ticks requested after pool.Close returned
}

// hangsConfirmed counts logical hangs established in this process. After a few of
// them the tick features are switched off for the remaining cases of the process
// (every such case would hang again and cost a watchdog period; the verdict is
// given already).
var hangsConfirmed atomic.Int32

const (
	hangsBeforeTicksOff = 3
	// after that many confirmed hangs the remaining cases of the process are not run
	// at all (each is reported inconclusive; the run as a whole is a violation already)
	hangsBeforeSkip = 8
)

// addTicks draws the tick dimensions of a scenario from a stream of their own
// (the scenario itself stays what it was). force: every dimension is present
// (group 5 cases).
func addTicks(sc *scenario, px *prng.R, plan planSpec, force bool) {
	if sc.NoExp {
		return
	}
	if !force && !px.Chance(1, 2) {
		return
	}
	tc := &tickCfg{}
	variant := px.Intn(4)
	if force {
		variant = 3
	}
	// 0: tick driver only, 1: slow closes + driver, 2: tick inside pool.Close's closes, 3: everything
	driver := variant != 2
	tc.SlowClose = variant == 1 || variant == 3
	tc.InClose = variant >= 2
	tc.AfterClose = px.Intn(3)
	sc.Tick = tc
	if driver {
		var ops []op
		for i, n := 0, px.Range(1, 3); i < n; i++ {
			o := op{Kind: "tick", N: 1, When: "now"}
			switch px.Intn(6) {
			case 0, 1:
				if plan.D >= 1 {
					o.When = "hit" // when a planned delay point was reached
				}
			case 2, 3:
				if sc.HasShut {
					o.When = "close" // when the shutdown was requested
				}
			}
			if px.Chance(1, 3) {
				o.N = px.Range(2, 3) // several ticks in a row
			}
			if px.Chance(1, 6) {
				o.Adv = 60 // the minute really passes on the virtual clock
			}
			ops = append(ops, o)
		}
		if force {
			ops[0].When = "hit"
		}
		sc.Workers = append(sc.Workers, ops)
	}
}

// ensureShutdown gives the scenario a worker that shuts the pool down in the
// middle if it has none.
func ensureShutdown(sc *scenario) {
	if sc.HasShut {
		return
	}
	sc.HasShut = true
	sc.Workers = append(sc.Workers, []op{{Kind: "cycle", Key: 0}, {Kind: "close"}})
}

// waitCond is a bounded, purely schedule-shaping wait (never a verdict): it
// lets other goroutines run until cond holds or the bound is used up.
func waitCond(cond func() bool, maxIter int) bool {
	for i := 0; i < maxIter; i++ {
		if cond() {
			return true
		}
		runtime.Gosched()
		if i >= 8 {
			time.Sleep(50 * time.Microsecond)
		}
	}
	return cond()
}

// logicalGate holds the caller until the event log grew by `advance` events
// (others made progress), or did not grow for ~1 ms (everybody else is blocked or
// done), or a hard cap. Same discipline as verifkit's planned delays.
func (m *monitor) logicalGate(advance int) {
	start := m.len()
	last, lastAt := start, time.Now()
	hard := lastAt.Add(10 * time.Millisecond)
	for {
		runtime.Gosched()
		n := m.len()
		now := time.Now()
		if n-start >= advance || now.After(hard) {
			return
		}
		if n != last {
			last, lastAt = n, now
		} else if now.Sub(lastAt) > time.Millisecond {
			return
		}
		time.Sleep(50 * time.Microsecond)
	}
}

// fireTick makes the pool's own ticker tick (adv > 0: the virtual clock moves by
// adv seconds first and what became due fires). Returns the number of tickers
// that took the tick (0: the pool's ticker is stopped, or its previous tick is
// still waiting to be received).
func (m *monitor) fireTick(w int, adv int, where string) int {
	if m.ticksOff {
		return 0
	}
	m.mu.Lock()
	closeCalled := m.closeCal != 0
	m.mu.Unlock()
	var n int
	if adv > 0 {
		n = verifkit.AdvanceClockAndFire(time.Duration(adv) * time.Second)
	} else {
		n = verifkit.FireTickers()
	}
	m.mu.Lock()
	defer m.mu.Unlock()
	m.logLocked("tick.fire", w, "", 0, fmt.Sprintf("%s adv=%d delivered=%d", where, adv, n))
	m.counts["ticks_requested"]++
	m.counts["ticks_requested_"+where]++
	if m.closeRet != 0 {
		m.counts["ticks_requested_after_close_returned"]++
	}
	if n > 0 {
		m.counts["own_ticker_ticks_fired"] += n
		m.counts["own_ticker_ticks_fired_"+where] += n
		if closeCalled && m.closeRet == 0 {
			// delivered after the shutdown was requested and before it returned
			m.counts["ticks_overlapping_close"] += n
		}
	}
	return n
}

// gate is called at the start of every fconn.Close (before the monitor looks at
// the connection).
func (m *monitor) gate(by string) {
	tc := m.tick
	if tc == nil || m.ticksOff || !strings.HasPrefix(by, "pool.") {
		return
	}
	if tc.InClose && by == "pool.Close" {
		// pool.Close is inside closing its idle connections: the minute elapses now.
		if m.fireTick(-3, 0, "in_close") > 0 {
			// hold this Close until the pool's goroutine took the tick (or the
			// ticker was stopped, which discards it)
			if waitCond(func() bool { return verifkit.PendingTicks() == 0 }, 300) {
				m.mu.Lock()
				m.counts["in_close_tick_taken_or_discarded"]++
				m.mu.Unlock()
			}
			m.logicalGate(4)
		}
	}
	if tc.SlowClose {
		m.mu.Lock()
		m.counts["slow_closes"]++
		m.mu.Unlock()
		m.logicalGate(6)
	}
}

// runTickOp is the tick driver's step.
func (m *monitor) runTickOp(w int, o op) {
	switch o.When {
	case "hit":
		if waitCond(func() bool { return verifkit.PlanHits() >= 1 }, 200) {
			m.mu.Lock()
			m.counts["tick_driver_saw_plan_hit"]++
			m.mu.Unlock()
		}
	case "close":
		if waitCond(func() bool { m.mu.Lock(); defer m.mu.Unlock(); return m.closeCal != 0 }, 200) {
			m.mu.Lock()
			m.counts["tick_driver_saw_close_call"]++
			m.mu.Unlock()
		}
	}
	for k := 0; k < o.N; k++ {
		if k > 0 {
			// several ticks in a row: the next one after the previous was taken
			waitCond(func() bool { return verifkit.PendingTicks() == 0 }, 100)
		}
		adv := 0
		if k == 0 {
			adv = o.Adv
		}
		m.fireTick(w, adv, "driver_"+o.When)
	}
}

// ownTickParked reports whether a dump shows the pool's own tick goroutine inside CleanUp.
func ownTickParked(dump string) bool {
	for _, blk := range strings.Split(dump, "\n\n") {
		if strings.Contains(blk, "pool.(*P).cleanUpTick") && strings.Contains(blk, "pool.(*P).CleanUp") {
			return true
		}
	}
	return false
}
