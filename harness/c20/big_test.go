//go:build verif

package c20

// Group F: size classes. Sources and trees of 4 KiB .. 8 MiB (16 MiB in the
// thorough tier), around the powers of two that buffers and "hardening" limits
// like to use (4096, 65536, 262144, 1048576 +- a few bytes) and well beyond.
// The harness writes every text itself FROM A TREE, using only constructs whose
// meaning is unambiguous (directive lines, blocks, quoted tokens with \" as the
// only escape, comments after whitespace, line continuations between arguments,
// whole-snippet imports, whole-token / in-string references to macros declared
// before). So two oracles apply that do not depend on the parser:
//   known-source: a successful parse returns exactly the tree the text was written from
//                 (same number of top-level directives, the sentinel last directive intact, ...);
//   round trip  : the canonical print of the returned tree parses to the same tree
//                 (the generic monitor in judgeFull; here the printed text is itself big).
// A rejected text is not judged (the statement allows "reports an error"), it is counted,
// and min_observed makes a run in which the big texts were not parsed inconclusive.
//
// Group G: expansion growth. Snippet / macro fan-out of depth k yields fan^k nodes
// (bytes) from O(k) input bytes; measured logically (result size vs. input size) with
// a budget the harness controls, reported as an observation, never judged.

import (
	"fmt"
	"os"
	"strings"
	"time"
	"unicode"

	parser "github.com/foxcpp/maddy/framework/cfgparser"
	"verifkit/prng"
	"verifkit/rep"
)

type knownSource struct {
	tree       []parser.Node
	what       string
	parsed     bool
	differs    bool
	printedLen int
}

const (
	capBigNodes = 6_000_000
	capBigMacro = 256 << 20
	oneMiB      = 1 << 20
)

var bigNames = []string{"entry", "deliver_to", "check", "table.chain", "x-y", "_u", "имя", "名", "é9", "A1", "z.z", "w"}
var bigBareArgs = []string{
	"x", "yes", "no", "10", "1s", "550", "5.1.1", "tcp:||0.0.0.0:25", "&local", "=", "a=b", "postmaster@example.org",
	"значение", "値", "--flag", "user@例え.jp", "(paren)", ")", "*", "'single'", "importer", "0", "-",
}
var bigQuotedArgs = []string{
	"", " ", "two words", "a  b", "tab\tin", "line1\nline2", "cr\rin", "crlf\r\nin", `q"uote`, `""`, "# not a comment", "{ }", "x {", "} y",
	" lead", "trail ", "a#b", "ends with nl\n", "\n", "import s0", "(s0)", "=", "a\nb\nc", "日本 語",
}

// bareSafe: the token may be written without quotes and denotes itself.
func bareSafe(s string) bool {
	if s == "" {
		return false
	}
	for _, r := range s {
		if unicode.IsSpace(r) || strings.ContainsRune("\"#\\{}$", r) || r == 0xFEFF || r == unicode.ReplacementChar {
			return false
		}
	}
	return true
}

func bigSmallArg(p *prng.R) string {
	if p.Chance(1, 6) {
		return prng.Pick(p, bigQuotedArgs)
	}
	return prng.Pick(p, bigBareArgs)
}

// longToken: n bytes (exactly) from one of several character classes.
func longToken(p *prng.R, n int) string {
	if n <= 0 {
		return ""
	}
	var unit string
	switch p.Intn(6) {
	case 0:
		unit = "abcdefghijklmnopqrstuvwxyz0123456789"
	case 1:
		unit = "é" // 2-byte runes: rune boundaries straddle every even/odd buffer boundary
	case 2:
		unit = "名前x" // 3+3+1 bytes
	case 3:
		unit = "word and space \n" // needs quotes, has newlines
	case 4:
		unit = `q"` // every second byte needs an escape
	default:
		unit = "x.y-z_@:=/"
	}
	s := strings.Repeat(unit, n/len(unit)+1)
	// cut at a rune boundary, then fill with ASCII
	cut := n
	for cut > 0 && cut < len(s) && !isRuneStart(s[cut]) {
		cut--
	}
	return s[:cut] + strings.Repeat("z", n-cut)
}

func isRuneStart(b byte) bool { return b&0xC0 != 0x80 }

type layout struct {
	p         *prng.R
	canonical bool
	nl        string
	cont      int // 1 in cont argument gaps is a line continuation (0 = never)
	comments  int // 1 in comments lines gets a comment (0 = never)
	quoteRate int // 1 in quoteRate bare-safe tokens is quoted anyway (0 = never)
}

func newLayout(p *prng.R, canonical bool) *layout {
	l := &layout{p: p, canonical: canonical, nl: "\n"}
	if canonical {
		return l
	}
	if p.Chance(1, 4) {
		l.nl = "\r\n"
	}
	l.cont = []int{0, 40, 200}[p.Intn(3)]
	l.comments = []int{0, 10, 50}[p.Intn(3)]
	l.quoteRate = []int{0, 3, 20}[p.Intn(3)]
	return l
}

func (l *layout) name() string {
	if l.canonical {
		return "canonical"
	}
	n := "free"
	if l.nl == "\r\n" {
		n += "-crlf"
	}
	return n
}

func (l *layout) tok(b *strings.Builder, s string) {
	if bareSafe(s) && !(l.quoteRate > 0 && l.p.Chance(1, l.quoteRate)) {
		b.WriteString(s)
		return
	}
	quoteToken(b, s)
}

var bigComments = []string{"# comment", "#", "## { } \" $(m0) import s0", "#}", "# \\", "# {", "#\"unclosed", "# {env:C20_A} $(", "#\tx"}

func (l *layout) indent(b *strings.Builder, d int) {
	switch l.p.Intn(4) {
	case 0:
	case 1:
		b.WriteString(strings.Repeat("\t", d%4))
	default:
		b.WriteString(strings.Repeat(" ", (d%6)*2))
	}
}

func (l *layout) eol(b *strings.Builder) {
	if l.comments > 0 && l.p.Chance(1, l.comments) {
		b.WriteString(" " + prng.Pick(l.p, bigComments))
	}
	b.WriteString(l.nl)
}

func (l *layout) header(b *strings.Builder, n *parser.Node) {
	l.tok(b, n.Name)
	for _, a := range n.Args {
		if l.cont > 0 && l.p.Chance(1, l.cont) {
			b.WriteString(" \\" + l.nl + "    ")
		} else {
			b.WriteByte(' ')
		}
		l.tok(b, a)
	}
}

// node writes one node (and its block) at depth d.
func (l *layout) node(b *strings.Builder, n *parser.Node, d int) {
	if l.canonical {
		b.WriteString(printTree([]parser.Node{*n})) // depth-0 indentation; indentation is not part of the tree
		return
	}
	if l.comments > 0 && l.p.Chance(1, l.comments*2) {
		l.indent(b, d)
		b.WriteString(prng.Pick(l.p, bigComments) + l.nl)
	}
	if l.p.Chance(1, 40) {
		b.WriteString(l.nl)
	}
	l.indent(b, d)
	l.header(b, n)
	if n.Children == nil {
		l.eol(b)
		return
	}
	switch {
	case len(n.Children) == 0:
		b.WriteString(prng.Pick(l.p, []string{" { }", " {  }", " {" + l.nl + "}", " {\t}"}))
	case len(n.Children) == 1 && n.Children[0].Children == nil && l.p.Chance(1, 6):
		// one-line block
		b.WriteString(" { ")
		k := &n.Children[0]
		l.tok(b, k.Name)
		for _, a := range k.Args {
			b.WriteByte(' ')
			l.tok(b, a)
		}
		b.WriteString(" }")
	default:
		b.WriteString(" {")
		l.eol(b)
		for i := range n.Children {
			l.node(b, &n.Children[i], d+1)
		}
		l.indent(b, d)
		b.WriteString("}")
	}
	l.eol(b)
}

// ---------------------------------------------------------------------------
// shapes: each yields top-level items one by one until the text is long enough

type bigCase struct {
	shape     string
	target    int
	canonical bool
}

func sizeClass(n int) string {
	near := func(c int) bool { return n >= c-16 && n <= c+16 }
	switch {
	case near(4096):
		return "4KiB+-"
	case near(65536):
		return "64KiB+-"
	case near(262144):
		return "256KiB+-"
	case near(oneMiB):
		return "1MiB+-"
	case n < oneMiB:
		return "under-1MiB"
	case n <= 2*oneMiB:
		return "1-2MiB"
	case n <= 4*oneMiB:
		return "2-4MiB"
	case n <= 8*oneMiB:
		return "4-8MiB"
	default:
		return "over-8MiB"
	}
}

func smallDirective(p *prng.R, i int) parser.Node {
	n := parser.Node{Name: fmt.Sprintf("%s%d", prng.Pick(p, bigNames), i)}
	k := p.Weighted([]int{10, 40, 30, 15, 5})
	for a := 0; a < k; a++ {
		n.Args = append(n.Args, bigSmallArg(p))
	}
	return n
}

func blockTree(p *prng.R, i, depth int, budget *int) parser.Node {
	n := smallDirective(p, i)
	*budget -= 16
	if depth >= 7 || *budget <= 0 {
		return n
	}
	if p.Chance(1, 3) || depth == 0 {
		n.Children = []parser.Node{}
		kids := p.Weighted([]int{5, 10, 20, 30, 20, 10, 5})
		if p.Chance(1, 8) {
			kids = p.Range(50, 2000) // many children
		}
		for k := 0; k < kids && *budget > 0; k++ {
			n.Children = append(n.Children, blockTree(p, i*7+k, depth+1, budget))
		}
	}
	return n
}

// buildBig writes a text of (when possible exactly) bc.target bytes and returns the tree it denotes.
func buildBig(p *prng.R, bc bigCase, idx int) (text string, tree []parser.Node, lay *layout) {
	lay = newLayout(p.Fork("layout"), bc.canonical)
	var b strings.Builder
	b.Grow(bc.target + 4096)
	if bc.shape == "oneline" {
		lay.cont = 0
	}
	sentinel := parser.Node{Name: fmt.Sprintf("zz_sentinel_%d", idx), Args: []string{"end", "of input", "12345"}}
	var sb strings.Builder
	lay2 := &layout{p: prng.New(1, 1, "sentinel"), canonical: bc.canonical, nl: lay.nl}
	lay2.node(&sb, &sentinel, 0)
	sentinelText := sb.String()
	finalNL := !p.Chance(1, 6)
	if !finalNL {
		sentinelText = strings.TrimRight(sentinelText, "\r\n")
	}
	padOverhead := len("pad ") + len(lay.nl)
	if bc.canonical {
		padOverhead = len(`"pad" ""`) + 1
	}
	reserve := len(sentinelText) + padOverhead + 1
	room := func() int { return bc.target - reserve - b.Len() }
	add := func(n parser.Node) {
		tree = append(tree, n)
		lay.node(&b, &tree[len(tree)-1], 0)
	}
	comment := func(n int) {
		if n < 2+len(lay.nl) {
			b.WriteString(lay.nl)
			return
		}
		body := longToken(p, n-1-len(lay.nl))
		body = strings.NewReplacer("\n", " ", "\r", " ").Replace(body)
		b.WriteString("#" + body + lay.nl)
	}
	i := 0
	switch bc.shape {
	case "flat":
		for room() > 200 {
			add(smallDirective(p, i))
			i++
		}
	case "blocks":
		for room() > 400 {
			budget := room() / 3
			if budget > 200_000 {
				budget = p.Range(1000, 200_000)
			}
			add(blockTree(p, i, 0, &budget))
			i++
		}
	case "longone":
		add(smallDirective(p, 0))
		add(smallDirective(p, 1))
		tail := p.Range(0, 3)
		n := parser.Node{Name: "big"}
		if p.Bool() {
			n.Args = append(n.Args, "before")
		}
		// worst case every byte needs an escape (class q"): keep the quoted form inside the room
		r := room() - 64 - tail*64
		tokLen := r
		t := longToken(p, tokLen)
		if extra := strings.Count(t, `"`); extra > 0 {
			t = t[:len(t)*2/3]
			for len(t) > 0 && !isRuneStart(t[len(t)-1]) && len(t) < tokLen {
				t = t[:len(t)-1]
			}
		}
		n.Args = append(n.Args, t)
		if p.Bool() {
			n.Args = append(n.Args, "after")
		}
		if room() > 0 {
			add(n)
		}
		for k := 0; k < tail && room() > 200; k++ {
			add(smallDirective(p, 2+k))
		}
	case "longmany":
		base := prng.Pick(p, []int{4096, 65536, 65536, 16384, 100_000})
		for {
			n := parser.Node{Name: fmt.Sprintf("tok%d", i)}
			need := 32
			for a, k := 0, p.Range(1, 3); a < k; a++ {
				t := longToken(p, base+p.Range(-2, 2))
				if strings.Count(t, `"`) > 0 {
					t = t[:len(t)/2]
				}
				n.Args = append(n.Args, t)
				need += len(t) + strings.Count(t, `"`) + 8
			}
			if room() < need+200 {
				break
			}
			add(n)
			i++
		}
		for room() > 200 {
			add(smallDirective(p, i))
			i++
		}
	case "oneline":
		n := parser.Node{Name: "line"}
		est := 5
		limit := room() - 300
		for est < limit {
			a := bigSmallArg(p)
			n.Args = append(n.Args, a)
			est += len(a) + 3 + strings.Count(a, `"`)
		}
		add(n)
	case "comments":
		add(smallDirective(p, 0))
		kind := p.Intn(4)
		for room() > 400 {
			switch kind {
			case 0: // one huge comment line, then small directives
				comment(room() - 300)
			case 1: // 64 KiB comment lines
				comment(minInt(room()-300, 65536+p.Range(-2, 2)))
			case 2: // very many short comment lines
				for k := 0; k < 1000 && room() > 400; k++ {
					b.WriteString(prng.Pick(p, bigComments) + lay.nl)
				}
			default: // a huge trailing comment on a directive line
				d := smallDirective(p, i)
				d.Children = nil
				tree = append(tree, d)
				lay.header(&b, &tree[len(tree)-1])
				b.WriteString(" ")
				comment(minInt(room()-300, p.Range(1000, 3_000_000)))
			}
			if room() > 300 {
				add(smallDirective(p, i+1))
			}
			i += 2
		}
	}
	// pad to the exact size, then the sentinel
	k := bc.target - b.Len() - padOverhead - len(sentinelText)
	if k < 1 {
		k = 1
	}
	pad := parser.Node{Name: "pad", Args: []string{strings.Repeat("p", k)}}
	tree = append(tree, pad)
	if bc.canonical {
		b.WriteString(printTree([]parser.Node{pad}))
	} else {
		b.WriteString("pad " + pad.Args[0] + lay.nl)
	}
	tree = append(tree, sentinel)
	b.WriteString(sentinelText)
	return b.String(), tree, lay
}

// buildExpansion: a moderate source whose parsed tree is big (the tree-first side:
// these ARE parsed trees, so print -> parse must give the same tree whatever its size).
func buildExpansion(p *prng.R, kind string, target, idx int) (text string, tree []parser.Node) {
	var b strings.Builder
	sentinel := parser.Node{Name: fmt.Sprintf("zz_sentinel_%d", idx), Args: []string{"end", "of input", "12345"}}
	switch kind {
	case "snippet-in-blocks", "snippet-flat":
		nBody := prng.Pick(p, []int{10, 100, 1000, 10000})
		var body []parser.Node
		b.WriteString("(big) {\n")
		size := 0
		for k := 0; k < nBody; k++ {
			n := parser.Node{Name: fmt.Sprintf("k%d", k), Args: []string{prng.Pick(p, bigBareArgs)}}
			if p.Chance(1, 10) {
				n.Children = []parser.Node{{Name: "inner", Args: []string{"v"}}}
				fmt.Fprintf(&b, " %s %s {\n  inner v\n }\n", n.Name, n.Args[0])
				size += 16
			} else {
				fmt.Fprintf(&b, " %s %s\n", n.Name, n.Args[0])
			}
			size += len(n.Name) + len(n.Args[0]) + 8
			body = append(body, n)
		}
		b.WriteString("}\n")
		times := target/size + 1
		for m := 0; m < times; m++ {
			if kind == "snippet-in-blocks" {
				fmt.Fprintf(&b, "blk%d a%d {\n import big\n}\n", m, m)
				tree = append(tree, parser.Node{Name: fmt.Sprintf("blk%d", m), Args: []string{fmt.Sprintf("a%d", m)}, Children: body})
			} else {
				fmt.Fprintf(&b, "x%d\nimport big\n", m)
				tree = append(tree, parser.Node{Name: fmt.Sprintf("x%d", m)})
				tree = append(tree, body...)
			}
		}
	case "macro-list":
		nVals := prng.Pick(p, []int{10, 100, 1000, 10000})
		var vals []string
		b.WriteString("$(big) =")
		size := 0
		for k := 0; k < nVals; k++ {
			v := fmt.Sprintf("%s%d", prng.Pick(p, bigBareArgs[:6]), k)
			vals = append(vals, v)
			b.WriteString(" " + v)
			size += len(v) + 3
		}
		b.WriteString("\n")
		times := target/size + 1
		for m := 0; m < times; m++ {
			fmt.Fprintf(&b, "d%d first $(big) last\n", m)
			args := append(append([]string{"first"}, vals...), "last")
			tree = append(tree, parser.Node{Name: fmt.Sprintf("d%d", m), Args: args})
		}
	default: // macro-string
		vl := prng.Pick(p, []int{100, 4096, 65536, 300_000})
		val := longToken(p, vl)
		b.WriteString("$(big) = ")
		quoteToken(&b, val)
		b.WriteString("\n")
		times := target/(vl+16) + 1
		for m := 0; m < times; m++ {
			fmt.Fprintf(&b, "d%d \"pre $(big) post\" $(big)\n", m)
			tree = append(tree, parser.Node{Name: fmt.Sprintf("d%d", m), Args: []string{"pre " + val + " post", val}})
		}
	}
	tree = append(tree, sentinel)
	b.WriteString(printTree([]parser.Node{sentinel}))
	return b.String(), tree
}

func (h *harness) bigInputs() {
	r := h.r
	reps := r.N(1, 4)
	maxShift := 0 // quick: up to 8 MiB
	if r.Thorough() {
		maxShift = 1
	}
	idx := groupF
	shapes := []string{"flat", "longone", "longmany", "blocks", "oneline", "comments"}
	for round := 0; round < reps; round++ {
		for si, shape := range shapes {
			for zi := 0; zi < 7; zi++ {
				i := idx
				idx++
				h.bigCase(i, shape, si, zi, round, maxShift)
			}
		}
		// exact sweep across the 1 MiB boundary, flat lists, both layouts
		for d := -2; d <= 2; d++ {
			for _, canon := range []bool{false, true} {
				i := idx
				idx++
				h.runBig(i, bigCase{shape: "flat", target: oneMiB + d, canonical: canon})
			}
		}
		// small sources, big parsed trees
		for _, kind := range []string{"snippet-in-blocks", "snippet-flat", "macro-list", "macro-string"} {
			for zi := 0; zi < 4; zi++ {
				i := idx
				idx++
				h.runExpansion(i, kind, zi, maxShift)
			}
		}
	}
}

func (h *harness) bigCase(i int, shape string, si, zi, round, maxShift int) {
	p := prng.New(h.r.Seed(), uint64(i), "c20/big/size")
	var target int
	switch zi {
	case 0:
		target = 4096 + p.Range(-3, 3)
	case 1:
		target = 65536 + p.Range(-3, 3)
	case 2:
		target = 262144 + p.Range(-3, 3)
	case 3:
		target = oneMiB + p.Range(1, 8)
	case 4:
		target = oneMiB + 9 + p.Intn(oneMiB)
	case 5:
		target = 2*oneMiB + p.Intn(2*oneMiB)
	default:
		target = (4*oneMiB + p.Intn(4*oneMiB)) << maxShift
	}
	canon := (si+zi+round+int(h.r.Seed()%2))%2 == 0
	if shape == "comments" {
		canon = false
	}
	h.runBig(i, bigCase{shape: shape, target: target, canonical: canon})
}

func (h *harness) runBig(i int, bc bigCase) {
	lname := "free"
	if bc.canonical {
		lname = "canonical"
	}
	h.run(i, fmt.Sprintf("big-%s-%s-%s", bc.shape, sizeClass(bc.target), lname), func(c *rep.Case, st *stats) {
		if os.Getenv("C20_TIMING") != "" {
			t0 := time.Now()
			defer func() { fmt.Fprintf(os.Stderr, "C20_TIMING %s %d %v\n", bc.shape, bc.target, time.Since(t0)) }()
		}
		p := prng.New(h.r.Seed(), uint64(i), "c20/big")
		text, tree, lay := buildBig(p, bc, i)
		what := fmt.Sprintf("shape=%s target=%d layout=%s", bc.shape, bc.target, lay.name())
		h.finishBig(c, st, i, text, tree, bc.shape, what, len(text) == bc.target)
		c.Done("big/"+bc.shape+"/"+sizeClass(len(text))+"/"+lname, true)
	})
}

func (h *harness) runExpansion(i int, kind string, zi, maxShift int) {
	h.run(i, fmt.Sprintf("big-tree-%s-%d", kind, zi), func(c *rep.Case, st *stats) {
		p := prng.New(h.r.Seed(), uint64(i), "c20/bigx")
		target := []int{262144, oneMiB + p.Range(1, 4096), 2*oneMiB + p.Intn(oneMiB), (3*oneMiB + p.Intn(3*oneMiB)) << maxShift}[zi]
		text, tree := buildExpansion(p, kind, target, i)
		h.finishBig(c, st, i, text, tree, kind, fmt.Sprintf("shape=%s tree-target=%d", kind, target), false)
		c.Done("big-tree/"+kind+"/"+sizeClass(target), true)
	})
}

func (h *harness) finishBig(c *rep.Case, st *stats, i int, text string, tree []parser.Node, shape, what string, exact bool) {
	known := &knownSource{tree: tree, what: what}
	st.count["big_inputs"]++
	if exact {
		st.count["big_inputs_with_exact_target_size"]++
	}
	v := h.judgeFull(c, st, []byte(text), location, capBigNodes, capBigMacro, "big", known)
	sc := sizeClass(len(text))
	h.r.Distinct("big_source_size_classes", shape+"/"+sc)
	switch {
	case v.skipped:
		st.count["big_skipped_by_cap"]++
	case v.isErr:
		// not judged: the statement allows an error; min_observed keeps the run honest
		st.count["big_known_source_rejected/"+shape+"/"+v.class]++
	case known.parsed && !known.differs:
		st.count["known_source_parsed_as_written"]++
		st.count["known_source_parsed_as_written/"+shape]++
		if len(text) > oneMiB {
			st.count["big_sources_over_1MiB_parsed"]++
			st.count["big_sources_over_1MiB_parsed/"+shape]++
		}
		if known.printedLen > 0 {
			h.r.Distinct("big_tree_size_classes", shape+"/"+sizeClass(known.printedLen))
		}
		if known.printedLen > oneMiB {
			st.count["big_trees_over_1MiB_round_tripped"]++
			st.count["big_trees_over_1MiB_round_tripped/"+shape]++
		}
	}
}

// ---------------------------------------------------------------------------
// group G

func fanoutSnippets(fan, k int) string {
	var b strings.Builder
	for i := 0; i < k; i++ {
		fmt.Fprintf(&b, "(s%d) {\n", i)
		for f := 0; f < fan; f++ {
			fmt.Fprintf(&b, "import s%d\n", i+1)
		}
		b.WriteString("}\n")
	}
	fmt.Fprintf(&b, "(s%d) {\nx\n}\nimport s0\n", k)
	return b.String()
}

func ipow(a, k int) int {
	r := 1
	for ; k > 0; k-- {
		r *= a
	}
	return r
}

func (h *harness) expansionGrowth() {
	r := h.r
	idx := groupG
	type row struct{ fan, lo, hi int }
	// snippet fan-out: fan^k nodes `x`
	for _, rw := range []row{{2, 10, 18}, {3, 7, 12}, {4, 5, 9}} {
		for k := rw.lo; k <= rw.hi; k++ {
			i := idx
			idx++
			fan := rw.fan
			h.run(i, fmt.Sprintf("growth-snippet-fan%d-k%d", fan, k), func(c *rep.Case, st *stats) {
				text := fanoutSnippets(fan, k)
				want := ipow(fan, k)
				var known *knownSource
				if want <= 1<<16 {
					tree := make([]parser.Node, want)
					for j := range tree {
						tree[j].Name = "x"
					}
					known = &knownSource{tree: tree, what: fmt.Sprintf("snippet fan-out %d depth %d", fan, k)}
				}
				v := h.judgeFull(c, st, []byte(text), location, capBigNodes, capBigMacro, "growth", known)
				if !v.skipped && !v.isErr {
					ratio := v.facts.nodes / len(text)
					st.count["growth_measurements"]++
					r.Distinct("growth_snippet_fanout_nodes_per_input", fmt.Sprintf("fan=%d/k=%02d/input_bytes=%d/nodes=%d/nodes_per_byte=%d", fan, k, len(text), v.facts.nodes, ratio))
					if ratio > 1000 {
						st.count["growth_candidates_over_1000_nodes_per_input_byte"]++
					}
					if v.facts.nodes == want {
						st.count["growth_exactly_fan_pow_k"]++
					}
				}
				c.Done(fmt.Sprintf("growth/snippet/fan=%d", fan), true)
			})
		}
	}
	// macro fan-out: list doubling (2^k values) and string doubling (2^k bytes)
	for k := 10; k <= 18; k++ {
		for _, kind := range []string{"list", "string"} {
			i := idx
			idx++
			h.run(i, fmt.Sprintf("growth-macro-%s-k%d", kind, k), func(c *rep.Case, st *stats) {
				var b strings.Builder
				var tree []parser.Node
				if kind == "list" {
					b.WriteString("$(m0) = x\n")
					for j := 1; j <= k; j++ {
						fmt.Fprintf(&b, "$(m%d) = $(m%d) $(m%d)\n", j, j-1, j-1)
					}
					fmt.Fprintf(&b, "d $(m%d)\n", k)
					args := make([]string, 1<<k)
					for j := range args {
						args[j] = "x"
					}
					tree = []parser.Node{{Name: "d", Args: args}}
				} else {
					b.WriteString("$(m0) = x\n")
					for j := 1; j <= k; j++ {
						fmt.Fprintf(&b, "$(m%d) = a$(m%d)$(m%d)\n", j, j-1, j-1)
					}
					fmt.Fprintf(&b, "d v$(m%d)\n", k)
					val := "x"
					for j := 1; j <= k; j++ {
						val = "a" + val + val
					}
					tree = []parser.Node{{Name: "d", Args: []string{"v" + val}}}
				}
				text := b.String()
				known := &knownSource{tree: tree, what: fmt.Sprintf("macro %s doubling depth %d", kind, k)}
				v := h.judgeFull(c, st, []byte(text), location, capBigNodes, capBigMacro, "growth", known)
				if !v.skipped && !v.isErr {
					out := 0
					if kind == "list" {
						out = v.facts.maxArgs
					} else {
						out = len(tree[0].Args[0])
					}
					st.count["growth_measurements"]++
					r.Distinct("growth_macro_"+kind+"_units_per_input", fmt.Sprintf("k=%02d/input_bytes=%d/units=%d/units_per_byte=%d", k, len(text), out, out/len(text)))
					if out/len(text) > 1000 {
						st.count["growth_candidates_over_1000_units_per_input_byte"]++
					}
				}
				c.Done("growth/macro/"+kind, true)
			})
		}
	}
}
