//go:build verif

// C20 - configuration parsing never crashes; parsed trees round-trip; the
// shipped configuration files parse and pass pipeline validation.
// Runtime monitoring of cfgparser.Read on generated hostile inputs; see
// NOTES.md in this directory and DESIGN.md section 5, C20.
package c20

import (
	"bytes"
	"fmt"
	"os"
	"path/filepath"
	"regexp"
	"runtime"
	"runtime/debug"
	"sort"
	"strconv"
	"strings"
	"sync/atomic"
	"testing"
	"time"

	parser "github.com/foxcpp/maddy/framework/cfgparser"
	"verifkit/prng"
	"verifkit/rep"
)

const (
	capGenerated  = 100_000 // expansion cap (nodes) for grammar-generated / targeted inputs
	capMutated    = 20_000  // cap for mutated, soup and fuzz-loop inputs
	maxInputLen   = 64 << 10
	capMacroBytes = 16 << 20 // cap on the estimated size of macro-expanded argument text

	groupB = 1_000_000 // targeted families
	groupC = 2_000_000 // shipped configuration files
	groupD = 3_000_000 // feedback-guided mutation loop (thorough only)
	groupE = 4_000_000 // small-scope exhaustive lexical enumeration
	groupF = 5_000_000 // size classes: sources and trees of 4 KiB .. 8 MiB (big_test.go)
	groupG = 6_000_000 // expansion growth measurements (big_test.go)
)

type harness struct {
	r        *rep.Reporter
	curFile  *os.File
	curCase  atomic.Pointer[rep.Case]
	tripped  atomic.Bool
	envGone  int
	memLimit uint64
	logBuf   []byte
}

// per-case accumulation (flushed once per case to keep the reporter mutex cold)
type stats struct {
	evals  int64
	shapes map[string]struct{}
	count  map[string]int64
}

func newStats() *stats { return &stats{shapes: map[string]struct{}{}, count: map[string]int64{}} }

func (h *harness) flush(st *stats) {
	ss := make([]string, 0, len(st.shapes))
	for s := range st.shapes {
		ss = append(ss, s)
	}
	h.r.Eval(st.evals, ss...)
	for k, v := range st.count {
		h.r.Count(k, v)
	}
}

var errLocRe = regexp.MustCompile(`^\S*:\d+(?::| -) ?`)

// errClass maps a parser error to a coarse class (used for shapes, feedback and
// the signature of a failed re-parse; never for a verdict on its own).
func errClass(err error) string {
	s := err.Error()
	for _, k := range []string{
		"nesting limit reached", "unexpected }", "macro declarations are only allowed", "snippet declarations are only allowed",
		"snippet declarations can't have arguments", "newline is required after closing brace", "unexpected EOF", "hit import expansion limit",
		"import directive requires exactly 1 argument", "unknown import", "can't use macro argument as directive name",
		"can't expand macro with multiple arguments", "macro name must end with )", "at least 2 arguments are required", "missing = in macro declaration",
		"empty directive name", "cannot start with a digit", "character not allowed in directive name", "expecting 'block header'",
	} {
		if strings.Contains(s, k) {
			return strings.ReplaceAll(k, " ", "-")
		}
	}
	s = errLocRe.ReplaceAllString(s, "")
	if len(s) > 40 {
		s = s[:40]
	}
	return "other:" + s
}

type verdictInfo struct {
	skipped bool
	isErr   bool
	class   string // outcome class: error class or tree feature class
	facts   treeFacts
	err     error
}

func bucket(n int) string {
	switch {
	case n == 0:
		return "0"
	case n == 1:
		return "1"
	case n <= 4:
		return "2-4"
	case n <= 16:
		return "5-16"
	case n <= 64:
		return "17-64"
	case n <= 255:
		return "65-255"
	case n == 256:
		return "256"
	case n <= 512:
		return "257-512"
	case n <= 4096:
		return "513-4k"
	default:
		return ">4k"
	}
}

func witness(in []byte, extra map[string]any) map[string]any {
	w := map[string]any{"input_len": len(in)}
	if len(in) <= maxInputLen {
		w["input_go_quoted"] = strconv.Quote(string(in))
	} else {
		// big inputs (group F/G) are reproducible from (seed, index); the witness keeps both ends
		w["input_head_go_quoted"] = strconv.Quote(string(in[:2000]))
		w["input_tail_go_quoted"] = strconv.Quote(string(in[len(in)-2000:]))
	}
	for k, v := range extra {
		w[k] = v
	}
	return w
}

// logInput puts the input on disk BEFORE the parser is called, so that a
// process-fatal event (stack exhaustion, out of memory) is attributable without
// a replay. One write per input: "<length>\n<bytes>"; bytes beyond <length> are
// stale remains of earlier, longer inputs.
func (h *harness) logInput(in []byte) {
	if h.curFile == nil {
		return
	}
	h.logBuf = append(h.logBuf[:0], strconv.Itoa(len(in))...)
	h.logBuf = append(h.logBuf, '\n')
	h.logBuf = append(h.logBuf, in...)
	h.curFile.WriteAt(h.logBuf, 0)
}

// sink receives verdicts; *rep.Case in TestVerif, a collector in FuzzRead.
type sink interface {
	Violation(sig, what string, witness any)
}

// read calls the real parser with the crash monitor around it.
func (h *harness) read(c sink, in []byte, loc, phase string) (nodes []parser.Node, err error, crashed bool) {
	defer func() {
		if v := recover(); v != nil {
			crashed = true
			st := string(debug.Stack())
			c.Violation("crash/"+phase+"/"+rep.PanicSite(st), fmt.Sprintf("cfgparser.Read panicked: %v", v),
				witness(in, map[string]any{"stack": truncate(st, 4000)}))
		}
	}()
	nodes, err = parser.Read(bytes.NewReader(in), loc)
	return
}

func truncate(s string, n int) string {
	if len(s) > n {
		return s[:n]
	}
	return s
}

// judge runs every monitor of the statement's first two sentences on one input.
func (h *harness) judge(c sink, st *stats, raw []byte, capNodes int64, origin string) verdictInfo {
	if len(raw) > maxInputLen {
		raw = raw[:maxInputLen]
	}
	return h.judgeAt(c, st, sanitize(raw), location, capNodes, origin)
}

// judgeAt: `in` is handed to the parser as is, with loc as its location.
func (h *harness) judgeAt(c sink, st *stats, in []byte, loc string, capNodes int64, origin string) verdictInfo {
	return h.judgeFull(c, st, in, loc, capNodes, capMacroBytes, origin, nil)
}

// judgeFull: like judgeAt with an explicit macro byte cap and, when the harness
// wrote `in` itself from a tree (known != nil), the known-source oracle: a
// successful parse must return exactly that tree.
func (h *harness) judgeFull(c sink, st *stats, in []byte, loc string, capNodes, capMacro int64, origin string, known *knownSource) verdictInfo {
	toks := refLex(in)
	cost, nImports, _ := estimateExpansion(toks, capNodes)
	if cost > capNodes {
		st.count["skipped_over_expansion_cap"]++
		st.count["by_origin/"+origin+"/skipped"]++
		return verdictInfo{skipped: true, class: "skipped"}
	}
	sLevel, dollarToks := conditionS(toks)
	if mb := estimateMacroBytes(toks, sLevel, capMacro); mb > capMacro {
		st.count["skipped_over_macro_expansion_cap"]++
		st.count["by_origin/"+origin+"/skipped"]++
		return verdictInfo{skipped: true, class: "skipped"}
	}

	// attribution of process-fatal events: the input is on disk before the call
	h.logInput(in)

	st.evals++
	st.count["inputs_parsed"]++
	st.count["inputs_"+origin]++
	nodes, err, crashed := h.read(c, in, loc, "parse")
	if crashed {
		st.count["crashes"]++
		st.shapes["crash/"+origin] = struct{}{}
		return verdictInfo{isErr: true, class: "crash"}
	}
	if err != nil {
		ec := errClass(err)
		st.count["outcome_error"]++
		st.count["by_origin/"+origin+"/error"]++
		if origin == "grammar" {
			st.count["grammar_error/"+ec]++
		}
		st.count["error/"+ec]++
		st.shapes["err/"+ec+"/"+origin] = struct{}{}
		return verdictInfo{isErr: true, class: "err/" + ec, err: err}
	}
	st.count["outcome_tree"]++
	st.count["by_origin/"+origin+"/tree"]++

	limit := sourceDepthLimit
	if nImports > 0 {
		limit = expandedDepthLimit
	}
	facts, viols := checkTree(nodes, sLevel, limit)
	for _, v := range viols {
		c.Violation(v.sig, v.what, witness(in, map[string]any{"origin": origin}))
	}
	st.evals += 5 // import, snippet/macro flags, names, depth (+ macro clause below)
	st.count["trees_nodes_total"] += int64(facts.nodes)
	if facts.nodes > 0 {
		st.count["trees_nonempty"]++
	}
	if nImports > 0 {
		st.count["trees_from_input_with_import_token"]++
	}
	if dollarToks > 0 {
		switch sLevel {
		case 2:
			st.count["macro_clause_judged_S_trees_with_macro_refs"]++
		case 1:
			st.count["macro_clause_judged_S1_trees_with_macro_refs"]++
		default:
			st.count["macro_clause_not_judged_outside_S"]++
		}
	}
	if facts.depth > sourceDepthLimit {
		st.count["trees_deeper_than_source_limit_via_import"]++
	}

	// known-source oracle (independent of the parser: the harness generated the
	// text from this tree using only constructs whose meaning is unambiguous)
	if known != nil {
		st.evals++
		known.parsed = true
		if class, what := sameTree(known.tree, nodes); class != "" {
			known.differs = true
			last := "none"
			if len(nodes) > 0 {
				ln := nodes[len(nodes)-1]
				last = truncate(fmt.Sprintf("%q %q (line %d, block=%v)", ln.Name, ln.Args, ln.Line, ln.Children != nil), 300)
			}
			c.Violation("known-source/differs/"+class, fmt.Sprintf("a text the harness wrote from a tree of %d top-level directives (%s) parsed without error to a different tree (%d top-level nodes): %s",
				len(known.tree), known.what, len(nodes), truncate(what, 500)),
				witness(in, map[string]any{"origin": origin, "generator": known.what, "top_level_written": len(known.tree), "top_level_returned": len(nodes), "last_returned": last}))
		}
	}

	// round-trip law
	rt := "rt-skip"
	if why := inexpressible(nodes); why != "" {
		st.count["roundtrip_not_judged/"+why]++
	} else if facts.depth > sourceDepthLimit {
		st.count["roundtrip_not_judged/deeper-than-source-limit"]++
	} else {
		text := printTree(nodes)
		h.logInput([]byte(text))
		st.evals++
		st.count["roundtrip_judged"]++
		if known != nil {
			known.printedLen = len(text)
		}
		if facts.nodes > 0 {
			st.count["roundtrip_judged_nonempty"]++
		}
		rt = "rt-ok"
		nodes2, err2, crashed2 := h.read(c, []byte(text), loc, "reparse")
		switch {
		case crashed2:
			rt = "rt-crash"
		case err2 != nil:
			rt = "rt-bad"
			c.Violation("roundtrip/reparse-error/"+errClass(err2), fmt.Sprintf("canonical print of the parsed tree does not parse: %v", err2),
				witness(in, map[string]any{"printed_len": len(text), "printed_go_quoted": strconv.Quote(truncate(text, 20000))}))
		default:
			if class, what := sameTree(nodes, nodes2); class != "" {
				rt = "rt-bad"
				c.Violation("roundtrip/differs/"+class, "parse(print(tree)) differs from tree: "+what,
					witness(in, map[string]any{"printed_len": len(text), "printed_go_quoted": strconv.Quote(truncate(text, 20000))}))
			}
		}
	}
	class := fmt.Sprintf("tree/n=%s/d=%s/args=%s/eb=%v/imp=%v/S=%v/$=%v/%s", bucket(facts.nodes), bucket(facts.depth), bucket(facts.maxArgs),
		facts.emptyBlk > 0, nImports > 0, sLevel, facts.hasDollar, rt)
	st.shapes[class+"/"+origin] = struct{}{}
	return verdictInfo{class: class, facts: facts}
}

func (h *harness) startTripwire() {
	go func() {
		var ms runtime.MemStats
		for {
			time.Sleep(200 * time.Millisecond)
			runtime.ReadMemStats(&ms)
			if ms.HeapAlloc > h.memLimit {
				h.tripped.Store(true)
				if c := h.curCase.Load(); c != nil {
					c.Inconclusive(fmt.Sprintf("memory tripwire: heap %d MiB while parsing (input saved in the shard's current-input file); resource exhaustion is not judged", ms.HeapAlloc>>20))
				}
				fmt.Fprintf(os.Stderr, "C20: memory tripwire fired, heap=%d MiB; leaving as inconclusive\n", ms.HeapAlloc>>20)
				h.r.Close()
				os.Exit(3)
			}
		}
	}()
}

func (h *harness) run(i int, id string, fn func(c *rep.Case, st *stats)) {
	h.r.Run(i, id, func(c *rep.Case) {
		h.curCase.Store(c)
		st := newStats()
		defer h.flush(st)
		fn(c, st)
	})
}

// gcBallast: the live heap of this harness is a few MiB, so the collector would
// run every few thousand inputs and dominate the profile (measured: 60% of the
// CPU in sweep/lock contention). An untouched allocation moves the GC trigger.
var gcBallast []byte

func TestVerif(t *testing.T) {
	r := rep.Open("C20")
	defer r.Close()
	gcBallast = make([]byte, 192<<20)
	defer runtime.KeepAlive(gcBallast)
	h := &harness{r: r, memLimit: 3 << 30}
	h.envGone = envSetup()
	sh, _ := r.Shard()
	f, err := os.OpenFile(filepath.Join(r.OutDir(), fmt.Sprintf("shard-%d.c20-current-input", sh)), os.O_CREATE|os.O_RDWR|os.O_TRUNC, 0o666)
	if err == nil {
		h.curFile = f
		defer f.Close()
	}
	h.startTripwire()
	selfTest(t)
	r.Set("expansion_cap_nodes_generated", capGenerated)
	r.Set("expansion_cap_nodes_mutated", capMutated)
	r.Set("environment_entries_removed_because_of_dollar", h.envGone)

	// ---- group A: grammar-generated, mutated and soup inputs, in batches ----
	const per = 250
	batches := r.N(400, 16000)
	for b := 0; b < batches; b++ {
		h.run(b, fmt.Sprintf("gen-batch-%d", b), func(c *rep.Case, st *stats) {
			p := prng.New(r.Seed(), uint64(b), "c20/gen")
			for k := 0; k < per; k++ {
				switch p.Weighted([]int{55, 35, 10}) {
				case 0:
					text, feats, _ := genConfig(p)
					v := h.judge(c, st, []byte(text), capGenerated, "grammar")
					if !v.skipped {
						sort.Strings(feats)
						for _, ft := range feats {
							st.shapes["feat/"+ft+"/"+outcomeKind(v)] = struct{}{}
						}
						if b == 0 && k < 3 {
							r.Sample(map[string]any{"origin": "grammar", "input": truncate(text, 600), "outcome": v.class})
						}
					}
				case 1:
					text, _, _ := genConfig(p)
					rounds := p.Weighted([]int{0, 40, 25, 15, 8, 5, 3, 2, 1, 1})
					if p.Chance(1, 20) {
						rounds = p.Range(10, 40)
					}
					m := mutate(p, []byte(text), rounds)
					v := h.judge(c, st, m, capMutated, "mutated")
					if b == 0 && k < 6 && !v.skipped {
						r.Sample(map[string]any{"origin": "mutated", "input_go_quoted": truncate(strconv.Quote(string(m)), 600), "outcome": v.class})
					}
				default:
					h.judge(c, st, genSoup(p), capMutated, "soup")
				}
			}
			c.Done("gen-batch", false)
		})
	}

	// ---- group B: targeted families ----
	h.targeted()

	// ---- group E: exhaustive small-scope enumeration over the lexical alphabet ----
	h.lexEnum(r.N(5, 6))

	// ---- group F: size classes; group G: expansion growth ----
	h.bigInputs()
	h.expansionGrowth()
	h.amplification()

	// ---- group C: shipped configuration files ----
	h.shipped(t)

	// ---- group D: feedback-guided mutation loop (thorough tier) ----
	if r.Thorough() {
		h.fuzzLoop(64, 60_000)
	} else {
		h.fuzzLoop(8, 6_000)
	}
}

func outcomeKind(v verdictInfo) string {
	if v.isErr {
		return "error"
	}
	return "tree"
}

// selfTest checks the harness' own tables and helpers against facts that do
// not depend on the code under test (a failure is a harness bug -> exit 2).
func selfTest(t *testing.T) {
	for _, n := range nameWords {
		if !nameWellFormed(n) {
			t.Fatalf("harness table: name word %q is not well-formed by the harness rule", n)
		}
	}
	for _, n := range badNames {
		if nameWellFormed(n) {
			t.Fatalf("harness table: bad name %q is well-formed by the harness rule", n)
		}
	}
	for s, want := range map[string]bool{``: true, `a`: true, `\`: false, `\\`: true, `a"b`: true, `a\"b`: false, `a\\"b`: true, `a\b`: true, `\\\`: false} {
		if tokenQuotable(s) != want {
			t.Fatalf("harness: tokenQuotable(%q) != %v", s, want)
		}
	}
	for s, want := range map[string]bool{"": true, "$(": true, "$(a": true, ")$(": true, "x$()": true, "$()": false, "$(a)": false, "x$(a)y": false, "x$(a$b)": true, "$(a$(b)c)": false} {
		if macroInert(s) != want {
			t.Fatalf("harness: macroInert(%q) != %v", s, want)
		}
	}
	for s, want := range map[string]bool{"": true, "{env:": true, "{env:}": true, "x{env:}y": true, "{env:A}": false, "{env:}x}": false, "}{env:": true, "{env:$a}": false} {
		if envInert(s) != want {
			t.Fatalf("harness: envInert(%q) != %v", s, want)
		}
	}
	for s, want := range map[string]bool{"": true, "a": true, "$(a)": true, "x$(a.b)y$(c)": true, "$": false, "$(": false, "$(a": false, "$()": false, "$(a$(b))": false, "$$(a)": false} {
		if tokenSatisfiesS(s) != want {
			t.Fatalf("harness: tokenSatisfiesS(%q) != %v", s, want)
		}
	}
	// 2^k fan-out must be seen by the estimator
	bomb := importChain(40, "backward", 2)
	if c, _, _ := estimateExpansion(refLex([]byte(bomb)), capGenerated); c <= capGenerated {
		t.Fatalf("harness: expansion estimator does not see a 2^40 expansion (cost %d)", c)
	}
	self2 := "(a) {\n import a\n import a\n}\nimport a\n"
	if c, _, _ := estimateExpansion(refLex([]byte(self2)), capGenerated); c <= capGenerated {
		t.Fatalf("harness: expansion estimator does not see a self-import with fan-out 2 (cost %d)", c)
	}
	var mb strings.Builder
	for k := 0; k < 40; k++ {
		mb.WriteString("$(m) = x$(m)$(m)\n")
	}
	mb.WriteString("d y$(m)\n")
	mt := refLex([]byte(mb.String()))
	lvl, _ := conditionS(mt)
	if c := estimateMacroBytes(mt, lvl, capMacroBytes); c <= capMacroBytes {
		t.Fatalf("harness: macro estimator does not see 2^40 doubling (cost %d)", c)
	}
	mt = refLex([]byte("$(p) = \"$(\"\n$(q) = )\n$(m) = \"x$(p)m$(q)x$(p)m$(q)\"\n" + strings.Repeat("b {\n", 40) + "d y$(m)\n" + strings.Repeat("}\n", 40)))
	lvl, _ = conditionS(mt)
	if c := estimateMacroBytes(mt, lvl, capMacroBytes); lvl != 0 || c <= capMacroBytes {
		t.Fatalf("harness: macro estimator does not see re-expansion doubling per nesting level (level %d cost %d)", lvl, c)
	}
	mt = refLex([]byte("$(a) = v\n$(b) = x$(a) $(a)\nd $(b) z$(a)\nblk {\n k $(b)\n}\n"))
	lvl, _ = conditionS(mt)
	if c := estimateMacroBytes(mt, lvl, capMacroBytes); c > 200 {
		t.Fatalf("harness: macro estimator far too coarse on a benign input (cost %d)", c)
	}
	small := importChain(5, "backward", 2)
	if c, _, _ := estimateExpansion(refLex([]byte(small)), capGenerated); c > 2000 {
		t.Fatalf("harness: expansion estimator is far too coarse on a 2^5 expansion (cost %d)", c)
	}
}

// ---------------------------------------------------------------------------
// group B

func (h *harness) targeted() {
	r := h.r
	idx := groupB
	next := func() int { idx++; return idx - 1 }

	// B1: nesting sweeps around the limit, three layouts
	for style := 0; style < 3; style++ {
		i := next()
		h.run(i, fmt.Sprintf("nest-sweep-style%d", style), func(c *rep.Case, st *stats) {
			for d := 1; d <= 300; d++ {
				if d > 8 && d < 240 && d%16 != 0 {
					continue
				}
				v := h.judge(c, st, []byte(nestText(d, style)), capGenerated, "nest")
				if !v.isErr {
					st.count["nest_accepted"]++
					if v.facts.depth > int(st.count["nest_max_accepted_depth"]) {
						st.count["nest_max_accepted_depth"] = int64(v.facts.depth)
					}
				} else {
					st.count["nest_rejected"]++
				}
			}
			// the counter is a maximum, not a sum: report through a distinct set
			r.Distinct("nest_max_accepted_depth", strconv.Itoa(int(st.count["nest_max_accepted_depth"])))
			delete(st.count, "nest_max_accepted_depth")
			c.Done(fmt.Sprintf("nest-style-%d", style), true)
		})
	}

	// B1b: one short line pattern repeated many times. A parser whose block counter drifts by
	// one per line (two blocks closed on one line, a brace taken as an argument, an unbalanced
	// line) stays within the limit line by line but builds trees of unbounded depth, or accepts
	// unbalanced input, only after hundreds of repetitions.
	{
		i := next()
		h.run(i, "repeated-line-patterns", func(c *rep.Case, st *stats) {
			patterns := []string{
				"a { b { c } }\n", "a { b { c }\n}\n", "a { b }\n", "a {\nb }\n", "a { b { c } } }\n",
				"a {\n", "}\n", "a { }\n", "a {\n}\n", "a b { c d { e f } }\n", "a \"{\" {\nb \"}\"\n}\n",
				"a { b {\nc }\n}\n", "a { b { c { d } } }\n", "a { b { c } } # x\n", "a { b { c } }\r\n",
				"a { b { c }\n", "(s) { a { b } }\nimport s\n", "a { b { c } }\n}\n",
				// declarations that close a block as their last token (oddity 1: the block must end there or the text be rejected)
				"a { $(x) = 1 }\n", "a { (s) }\n", "a { $(x) = 1 }\nb\n", "a { (s) }\nb $(x)\n", "a {\n$(x) = 1 }\n", "a { b\n$(x) = 1 }\n",
				"a { b {\n(s) }\n", "a {\n b v\n (s) }\nc\n",
			}
			for pi, pat := range patterns {
				for _, n := range []int{1, 2, 3, 10, 100, 255, 256, 257, 300, 700, 2000} {
					v := h.judge(c, st, []byte(strings.Repeat(pat, n)), capGenerated, "repeat")
					if v.isErr {
						st.count["repeat_rejected"]++
					} else {
						st.count["repeat_accepted"]++
						r.Distinct("repeat_accepted_tree_depths", strconv.Itoa(v.facts.depth))
					}
					_ = pi
				}
			}
			c.Done("repeated-line-patterns", true)
		})
	}

	// B2: import site depth x snippet body depth
	i := next()
	h.run(i, "import-depth-grid", func(c *rep.Case, st *stats) {
		for _, site := range []int{0, 1, 2, 100, 200, 253, 254, 255, 256, 257, 300} {
			for _, body := range []int{0, 1, 2, 100, 200, 253, 254, 255, 256, 257} {
				for _, fwd := range []bool{false, true} {
					v := h.judge(c, st, []byte(importNest(site, body, fwd)), capGenerated, "import-depth")
					if !v.isErr {
						r.Distinct("import_depth_tree_depths", strconv.Itoa(v.facts.depth))
					}
				}
			}
		}
		c.Done("import-depth-grid", true)
	})

	// B3: import chains / cycles / fan-out
	i = next()
	h.run(i, "import-chains", func(c *rep.Case, st *stats) {
		for _, kind := range []string{"backward", "forward", "self", "cycle", "undefined-tail", "redefined", "import-with-block"} {
			for _, k := range []int{1, 2, 3, 5, 14, 100, 254, 255, 256, 257, 258, 300} {
				for _, fan := range []int{1, 2, 3} {
					text := importChain(k, kind, fan)
					v := h.judge(c, st, []byte(text), capGenerated, "import-chain")
					st.shapes[fmt.Sprintf("chain/%s/k=%s/fan=%d/%s", kind, bucket(k), fan, v.class)] = struct{}{}
				}
			}
		}
		c.Done("import-chains", true)
	})

	// B4: macro declaration forms x use forms x order
	i = next()
	h.run(i, "macro-product", func(c *rep.Case, st *stats) {
		for di, d := range macroDeclForms {
			for ui, u := range macroUseForms {
				for _, order := range []int{0, 1, 2} {
					var text string
					switch order {
					case 0:
						text = d + u
					case 1:
						text = u + d
					default:
						text = d + u + d + u
					}
					v := h.judge(c, st, []byte(text), capGenerated, "macro-product")
					st.shapes[fmt.Sprintf("macro/%d/%d/%d/%s", di, ui, order, outcomeKind(v))] = struct{}{}
				}
			}
		}
		c.Done("macro-product", true)
	})

	// B5: environment placeholders everywhere
	i = next()
	h.run(i, "env-product", func(c *rep.Case, st *stats) {
		forms := []string{"d %s\n", "d pre%spost\n", "d \"%s %s\"\n", "%s v\n", "d%s v\n", "$(m) = %s\nd $(m) x$(m)\n", "(s) {\n k %s\n}\nimport s\n", "import %s\n",
			"d {env:%s}\n", "d %s}\n", "d {%s\n", "d %s {\n k %s\n}\n", "d v \\\n %s\n", "d $(%s)\n", "d x$(%s)y\n"}
		for _, f := range forms {
			for _, v := range envVars {
				ph := "{env:" + v + "}"
				n := strings.Count(f, "%s")
				a := make([]any, n)
				for k := range a {
					a[k] = ph
				}
				h.judge(c, st, []byte(fmt.Sprintf(f, a...)), capGenerated, "env-product")
			}
		}
		c.Done("env-product", true)
	})

	// B6: wide and long inputs (many args, many siblings, long tokens)
	i = next()
	h.run(i, "wide", func(c *rep.Case, st *stats) {
		p := prng.New(r.Seed(), uint64(i), "c20/wide")
		for k := 0; k < 40; k++ {
			var b strings.Builder
			switch k % 4 {
			case 0:
				b.WriteString("d")
				for a := 0; a < p.Range(100, 3000); a++ {
					b.WriteString(" " + prng.Pick(p, plainArgs))
				}
				b.WriteString("\n")
			case 1:
				for a := 0; a < p.Range(100, 3000); a++ {
					b.WriteString(prng.Pick(p, nameWords) + " v\n")
				}
			case 2:
				b.WriteString("d \"" + strings.Repeat("long \\\" token\n", p.Range(100, 2000)) + "\"\n")
			default:
				b.WriteString("(s) {\n")
				for a := 0; a < 50; a++ {
					b.WriteString(" k v\n")
				}
				b.WriteString("}\n")
				for a := 0; a < p.Range(10, 300); a++ {
					b.WriteString("blk {\n import s\n}\n")
				}
			}
			h.judge(c, st, []byte(b.String()), capGenerated, "wide")
		}
		c.Done("wide", true)
	})
}

// ---------------------------------------------------------------------------
// group E: all strings over lexAlphabet up to length L (one case per first symbol pair)

func (h *harness) lexEnum(maxLen int) {
	k := len(lexAlphabet)
	h.r.Set("exhaustive", map[string]any{"lexical_small_scope": fmt.Sprintf("all strings over the %d-symbol alphabet %q up to length %d (none skipped by the expansion caps unless by_origin/lex-enum/skipped is present); everything else is sampled", len(lexAlphabet), lexAlphabet, maxLen)})
	for a := 0; a < k; a++ {
		for b := 0; b < k; b++ {
			i := groupE + a*k + b
			h.run(i, fmt.Sprintf("lex-enum-%d-%d", a, b), func(c *rep.Case, st *stats) {
				prefix := lexAlphabet[a] + lexAlphabet[b]
				if b == 0 {
					// the strings of length 1 starting with symbol a, counted once
					h.judge(c, st, []byte(lexAlphabet[a]), capMutated, "lex-enum")
				}
				var rec func(s string, left int)
				rec = func(s string, left int) {
					h.judge(c, st, []byte(s), capMutated, "lex-enum")
					if left == 0 {
						return
					}
					for _, sym := range lexAlphabet {
						rec(s+sym, left-1)
					}
				}
				rec(prefix, maxLen-2)
				c.Done("lex-enum", false)
			})
		}
	}
}

// ---------------------------------------------------------------------------
// group D: feedback-guided mutation loop. Go's native coverage-guided fuzzing
// cannot be started by the generic driver (it only runs -test.run ^TestVerif
// on a binary built without -fuzz instrumentation), so the loop is in-process:
// a corpus per case, inputs that show a new behaviour class (error class or
// tree feature class, plus token-level input features) are kept and mutated
// further. The same oracle (judge) decides every execution.

var fuzzSeeds = []string{
	"a\n", "a a1 a2 {\n b\n}\n", "a { }\n", "$(m0) = v\na $(m0) x$(m0)y\n", "(s0) {\n k v\n}\nblk {\n import s0\n}\n",
	"a \\\n b\n", "a \"q \\\" q\" {\n b {\n  c }\n}\n", "a {env:C20_A} \"{env:C20_SP}\"\n", "# c\na # c\n", "a {\n b {\n c {\n d\n}\n}\n}\n",
	"$(a) = $(b)\n$(b) = 1 2\nd $(a) $(b) \"x$(a)\"\n", "(a) {\n import b\n}\n(b) {\n x\n}\nimport a\n", "(a) {\n import a\n}\nimport a\n",
}

func (h *harness) fuzzLoop(cases, iters int) {
	r := h.r
	for ci := 0; ci < cases; ci++ {
		i := groupD + ci
		h.run(i, fmt.Sprintf("fuzz-loop-%d", ci), func(c *rep.Case, st *stats) {
			p := prng.New(r.Seed(), uint64(i), "c20/fuzz")
			corpus := [][]byte{}
			for _, s := range fuzzSeeds {
				corpus = append(corpus, []byte(s))
			}
			for k := 0; k < 8; k++ {
				text, _, _ := genConfig(p)
				corpus = append(corpus, []byte(text))
			}
			seen := map[string]struct{}{}
			kept := 0
			for it := 0; it < iters; it++ {
				base := corpus[p.Intn(len(corpus))]
				if p.Chance(1, 3) && len(corpus) > len(fuzzSeeds) {
					// favour recent discoveries
					base = corpus[len(corpus)-1-p.Intn(minInt(len(corpus), 32))]
				}
				var in []byte
				if p.Chance(1, 10) {
					// splice two corpus entries
					o := corpus[p.Intn(len(corpus))]
					in = append(append([]byte(nil), base[:p.Intn(len(base)+1)]...), o[p.Intn(len(o)+1):]...)
				} else {
					in = mutate(p, base, p.Range(1, 4))
				}
				if len(in) > 4096 {
					in = in[:4096]
				}
				v := h.judge(c, st, in, capMutated, "fuzz")
				if v.skipped {
					continue
				}
				key := v.class + "|" + inputFeatures(in)
				if _, ok := seen[key]; !ok {
					seen[key] = struct{}{}
					corpus = append(corpus, in)
					kept++
					if len(corpus) > 4096 {
						corpus = append(corpus[:len(fuzzSeeds)], corpus[len(fuzzSeeds)+1024:]...)
					}
				}
			}
			st.count["fuzz_corpus_entries_kept_for_new_behaviour"] += int64(kept)
			c.Done("fuzz-loop", false)
		})
	}
}

func minInt(a, b int) int {
	if a < b {
		return a
	}
	return b
}

// inputFeatures is a cheap token-level signature of an input (feedback only).
func inputFeatures(in []byte) string {
	s := string(in)
	var b strings.Builder
	for _, f := range []string{"import", "$(", "{env:", "\"", "\\\n", "#", "(s"} {
		if strings.Contains(s, f) {
			b.WriteByte('1')
		} else {
			b.WriteByte('0')
		}
	}
	return b.String()
}

// ---------------------------------------------------------------------------
// Native fuzz target with the same oracle. Not run by the generic driver (see
// NOTES.md, "native fuzzing"); usable by hand:
//   go test -c -tags verif -overlay ... -fuzz=FuzzRead ; ./c20.test -test.run '^$' -test.fuzz '^FuzzRead$' -test.fuzzcachedir DIR

type collector struct{ sigs []string }

func (c *collector) Violation(sig, what string, witness any) {
	c.sigs = append(c.sigs, sig+": "+what)
}

func FuzzRead(f *testing.F) {
	envSetup()
	for _, s := range fuzzSeeds {
		f.Add([]byte(s))
	}
	for _, d := range macroDeclForms {
		for _, u := range macroUseForms[:6] {
			f.Add([]byte(d + u))
		}
	}
	h := &harness{}
	f.Fuzz(func(t *testing.T, data []byte) {
		if len(data) > 8192 {
			return
		}
		c := &collector{}
		h.judge(c, newStats(), data, capMutated, "native-fuzz")
		if len(c.sigs) > 0 {
			t.Fatalf("C20 oracle: %s", strings.Join(c.sigs, "; "))
		}
	})
}
