//go:build verif

package c20

import (
	"fmt"
	"strings"

	"verifkit/prng"
)

// ---------------------------------------------------------------------------
// grammar-based generator (produces text, not trees, so that layout variants
// - same-line blocks, closing brace as last argument, continuations, comments,
// CRLF - are part of the input space)

var nameWords = []string{
	"a", "b", "smtp", "deliver_to", "check", "modify", "destination", "default_source", "tls", "hostname",
	"table.chain", "auth.pass_table", "x-y", "_u", "имя", "名", "é", "A1", "z9.z", "imports", "importx", "Import",
}
var badNames = []string{"1abc", "a/b", "a:b", "a=b", "&ref", "٣x", "a,b", "na\"me", "{env:C20_A}", "a{", "}a", "a$(m0)", "$(m0)", "(s0)x", "a(b)", "\\"}
var plainArgs = []string{
	"x", "yes", "no", "10", "1s", "550", "5.1.1", "tcp:||0.0.0.0:25", "&local", "=", "==", "a=b", "postmaster@example.org",
	"(.+)@(.+)", "(paren)", "()", ")", "(", "*", "~", "'single'", "a'b", "значение", "値", " nbsp", "-", "--flag", "import", "importer",
	"}x", "x}", "{x", "x{", "{}", "x#y", "a\\b", "\\n", "a\\", "\ufeffbom", "é", "{env}", "env:", "{{", "}}",
}
var quotedBodies = []string{
	"", " ", "two words", "a  b", "tab\tin", "line1\nline2", "cr\rin", "crlf\r\nin", `esc \" quote`, `back\\slash`, `b\\\" q`, "# not a comment", "{", "}", "{ }",
	"x {", "} y", "$", "(s0)", "import s0", `\`, `\\`, `tail\\`, `\"`, " ls", "'", "=", "a\nb\nc", "\n", "ends with nl\n", "{env}", "}{",
}
var envVars = []string{"C20_A", "C20_EMPTY", "C20_SP", "C20_Q", "C20_NL", "C20_BS", "C20_CB", "C20_OB", "C20_IMP", "C20_ENV", "C20_HASH", "C20_UNDEFINED", "HOME", "PATH", "x y", ""}
var macroNames = []string{"m0", "m1", "m2", "m3", "host", "local_domains", "a.b", "x-1", "_"}
var snippetNames = []string{"s0", "s1", "s2", "s3", "s4", "tls_opts"}
var dirtyDollar = []string{"$", "$$", "$(", "$()", "$(m0", "$m0)", "$(m0))", "$($(m0))", "$(m0$(m1))", "x$(m0$", "$ (m0)", "$(m 0)", "$(m0)$", "$)(", "$(иня)", "$(m0)(", "${m0}", "$(m0\\)"}

type gen struct {
	p        *prng.R
	b        strings.Builder
	clean    bool // condition S intended: only complete simple macro references
	wantBad  bool // may emit ill-formed directive names
	macros   []string
	snips    []string
	nl       string
	feat     map[string]bool
	maxDepth int
	nodes    int
	budget   int

	forceMacro, forceSnip string

	// hostile: error-inducing constructs allowed (declarations inside blocks,
	// undefined imports, multi-valued macros inside strings, brace tokens as
	// arguments, ill-formed names ...). Non-hostile inputs are meant to parse,
	// so that the tree clauses and the round trip are exercised.
	hostile bool
	multi   map[string]bool // macro names that (may) have several values
	curSnip string          // snippet whose body is being generated
}

func snipRank(n string) int {
	for i, s := range snippetNames {
		if s == n {
			return i
		}
	}
	return -1
}

func (g *gen) f(s string) { g.feat[s] = true }

func (g *gen) indent(d int) {
	switch g.p.Intn(4) {
	case 0:
	case 1:
		g.b.WriteString(strings.Repeat("\t", d%4))
	default:
		g.b.WriteString(strings.Repeat(" ", (d%6)*2))
	}
}

func (g *gen) macroRef() string {
	pool := g.macros
	if len(pool) == 0 || g.p.Chance(1, 5) {
		pool = macroNames
	}
	return "$(" + prng.Pick(g.p, pool) + ")"
}

// singleRef returns a reference that is safe inside a string in non-hostile mode.
func (g *gen) singleRef() string {
	if g.hostile {
		return g.macroRef()
	}
	for try := 0; try < 6; try++ {
		pool := g.macros
		if len(pool) == 0 || g.p.Chance(1, 5) {
			pool = macroNames
		}
		n := prng.Pick(g.p, pool)
		if !g.multi[n] {
			return "$(" + n + ")"
		}
	}
	return "$(never_defined)"
}

func (g *gen) envRef() string {
	return "{env:" + prng.Pick(g.p, envVars) + "}"
}

func (g *gen) quoted(body string) string {
	// writes body in quoted syntax when possible, else raw in quotes (hostile)
	var b strings.Builder
	quoteToken(&b, body)
	return b.String()
}

func (g *gen) arg() string {
	switch g.p.Weighted([]int{30, 14, 10, 8, 6, 6, 4, 3, 2}) {
	case 0:
		return prng.Pick(g.p, plainArgs)
	case 1:
		g.f("quoted")
		body := prng.Pick(g.p, quotedBodies)
		if strings.Contains(body, "\n") {
			g.f("quoted-newline")
		}
		if strings.Contains(body, "\\") {
			g.f("backslash")
		}
		if body == "$" && g.clean {
			body = "S"
		}
		if !g.hostile && (body == "{" || body == "}" || body == `\`) {
			body = "{ }"
		}
		return g.quoted(body)
	case 2:
		g.f("macro-ref")
		return g.macroRef()
	case 3:
		g.f("macro-in-string")
		pre := prng.Pick(g.p, []string{"", "pre", "a.", "/", "x=", "@"})
		post := prng.Pick(g.p, []string{"", "post", ".b", "/", ")", "("})
		s := pre + g.singleRef() + post
		if g.p.Chance(1, 4) {
			s += g.singleRef()
			g.f("macro-twice-in-string")
		}
		if g.p.Chance(1, 3) {
			s = `"` + s + ` tail"`
		}
		return s
	case 4:
		g.f("env")
		return g.envRef()
	case 5:
		g.f("env-in-string")
		s := prng.Pick(g.p, []string{"", "pre", "/"}) + g.envRef() + prng.Pick(g.p, []string{"", "post", "}", g.envRef()})
		if g.p.Chance(1, 3) {
			s = `"` + s + ` x"`
		}
		return s
	case 6:
		g.f("env-macro-mix")
		if g.clean {
			return "{env:$(" + prng.Pick(g.p, macroNames) + ")}"
		}
		return prng.Pick(g.p, []string{"{env:", "{env:$(", "x{env:"}) + prng.Pick(g.p, macroNames) + prng.Pick(g.p, []string{"}", ")}", ""})
	case 7:
		if g.clean {
			return "S"
		}
		g.f("dirty-dollar")
		return prng.Pick(g.p, dirtyDollar)
	default:
		g.f("long-arg")
		return strings.Repeat(prng.Pick(g.p, []string{"ab", "é", "x.", "\\\\"}), g.p.Range(20, 400))
	}
}

func (g *gen) name() string {
	if g.hostile && g.wantBad && g.p.Chance(1, 25) {
		g.f("bad-name")
		return prng.Pick(g.p, badNames)
	}
	n := prng.Pick(g.p, nameWords)
	if g.p.Chance(1, 12) {
		g.f("quoted-name")
		return `"` + n + `"`
	}
	return n
}

func (g *gen) args() {
	n := g.p.Weighted([]int{25, 35, 20, 10, 5, 3, 2})
	for i := 0; i < n; i++ {
		g.b.WriteByte(' ')
		if g.p.Chance(1, 25) {
			g.f("continuation")
			g.b.WriteString("\\" + g.nl + "   ")
		}
		g.b.WriteString(g.arg())
	}
}

func (g *gen) comment() {
	g.f("comment")
	g.b.WriteString(prng.Pick(g.p, []string{"# comment", "#", "## { } \" $(m0) import s0", "#}", "# \\"}))
}

func (g *gen) eol() {
	if g.p.Chance(1, 12) {
		g.b.WriteByte(' ')
		g.comment()
	}
	g.b.WriteString(g.nl)
}

func (g *gen) importLine(d int) {
	pool := g.snips
	if !g.hostile && g.curSnip != "" {
		// keep snippet references acyclic in inputs that are meant to parse
		pool = nil
		for _, n := range g.snips {
			if snipRank(n) < snipRank(g.curSnip) {
				pool = append(pool, n)
			}
		}
		if len(pool) == 0 {
			g.indent(d)
			g.b.WriteString("noimport v")
			g.eol()
			return
		}
	}
	g.f("import")
	g.indent(d)
	if len(pool) == 0 || (g.hostile && g.p.Chance(1, 8)) {
		pool = snippetNames
		g.f("import-maybe-undefined")
	}
	g.b.WriteString("import ")
	form := g.p.Intn(12)
	if !g.hostile && form < 2 {
		form = 2
	}
	switch form {
	case 0:
		g.b.WriteString(g.macroRef())
		g.f("import-via-macro")
	case 1:
		g.b.WriteString(prng.Pick(g.p, pool) + " extra")
	case 2:
		g.b.WriteString(`"` + prng.Pick(g.p, pool) + `"`)
	case 3:
		g.b.WriteString(prng.Pick(g.p, pool))
		if g.hostile {
			g.f("import-with-block")
			g.b.WriteString(prng.Pick(g.p, []string{" { }", " {" + g.nl + " k v" + g.nl + "}", " {" + g.nl + "}"}))
		}
	default:
		g.b.WriteString(prng.Pick(g.p, pool))
	}
	g.eol()
}

func (g *gen) node(d int, inSnippet bool) {
	g.nodes++
	if g.p.Chance(1, 9) && (len(g.snips) > 0 || (g.hostile && g.p.Chance(1, 4))) {
		g.importLine(d)
		return
	}
	g.indent(d)
	g.b.WriteString(g.name())
	g.args()
	if d > g.maxDepth {
		g.maxDepth = d
	}
	blockW := 35 - 4*d
	if blockW < 4 {
		blockW = 4
	}
	if g.nodes > g.budget {
		blockW = 0
	}
	switch g.p.Weighted([]int{60, blockW, 4, 4, 2}) {
	case 0:
		g.eol()
	case 1:
		g.f("block")
		g.b.WriteString(" {")
		g.eol()
		k := g.p.Weighted([]int{5, 30, 30, 20, 10, 5})
		for i := 0; i < k; i++ {
			g.item(d+1, inSnippet)
		}
		g.indent(d)
		g.b.WriteString("}")
		g.eol()
	case 2:
		g.f("empty-block-same-line")
		g.b.WriteString(prng.Pick(g.p, []string{" { }", " {}", " {\t}", " { } "}))
		g.eol()
	case 3:
		g.f("one-line-block")
		if g.hostile && g.p.Chance(1, 5) {
			// a declaration as the only content of a one-line block
			g.f("one-line-block-with-declaration")
			if g.p.Bool() {
				g.b.WriteString(" { $(" + prng.Pick(g.p, macroNames) + ") = " + prng.Pick(g.p, plainArgs) + " }")
			} else {
				g.b.WriteString(" { (" + prng.Pick(g.p, snippetNames) + ") }")
			}
			g.eol()
			return
		}
		g.b.WriteString(" { " + prng.Pick(g.p, nameWords))
		if g.p.Bool() {
			g.b.WriteString(" " + prng.Pick(g.p, plainArgs))
		}
		g.b.WriteString(" }")
		g.eol()
	default:
		g.f("brace-as-last-arg-close")
		// children whose last one closes the block with a trailing }
		g.b.WriteString(" {")
		g.eol()
		g.indent(d + 1)
		g.b.WriteString(prng.Pick(g.p, nameWords) + " v }")
		g.eol()
	}
}

func (g *gen) macroDecl() {
	g.f("macro-decl")
	name := g.forceMacro
	if name == "" {
		name = prng.Pick(g.p, macroNames)
	}
	g.macros = append(g.macros, name)
	g.b.WriteString("$(" + name + ") =")
	form := g.p.Intn(10)
	if !g.hostile && form == 2 {
		form = 3
	}
	switch form {
	case 0:
		g.f("macro-decl-only-undefined-ref")
		g.b.WriteString(" $(never_defined)")
	case 1:
		g.f("macro-decl-self-ref")
		g.b.WriteString(" $(" + name + ")")
	case 2:
		g.f("macro-decl-missing-value")
	default:
		n := g.p.Weighted([]int{0, 60, 25, 10, 5})
		if !g.hostile && !g.multi[name] {
			n = 1
		}
		for i := 0; i < n; i++ {
			g.b.WriteByte(' ')
			a := g.arg()
			if !g.hostile && !g.multi[name] && strings.HasPrefix(a, "$(") && strings.HasSuffix(a, ")") {
				a = "v" // a whole-token reference could expand to several values
			}
			g.b.WriteString(a)
		}
	}
	g.eol()
}

func (g *gen) snippetDecl() {
	g.f("snippet-decl")
	name := g.forceSnip
	if name == "" {
		name = prng.Pick(g.p, snippetNames)
	}
	g.snips = append(g.snips, name)
	g.b.WriteString("(" + name + ")")
	if g.hostile && g.p.Chance(1, 30) {
		g.b.WriteString(" arg")
	}
	g.b.WriteString(" {")
	g.eol()
	k := g.p.Weighted([]int{5, 25, 30, 20, 10, 10})
	prev := g.curSnip
	g.curSnip = name
	for i := 0; i < k; i++ {
		g.item(1, true)
	}
	g.curSnip = prev
	g.b.WriteString("}")
	g.eol()
}

func (g *gen) item(d int, inSnippet bool) {
	w := []int{80, 6, 6, 1, 1}
	if !g.hostile {
		w = []int{80, 6, 6, 0, 0}
	}
	switch g.p.Weighted(w) {
	case 0:
		g.node(d, inSnippet)
	case 1:
		g.indent(d)
		g.comment()
		g.b.WriteString(g.nl)
	case 2:
		g.b.WriteString(g.nl)
	case 3:
		g.f("nested-macro-decl")
		g.indent(d)
		g.macroDecl()
	default:
		g.f("nested-snippet-decl")
		g.indent(d)
		g.snippetDecl()
	}
}

// genConfig builds one configuration text.
func genConfig(p *prng.R) (text string, feats []string, clean bool) {
	g := &gen{p: p, feat: map[string]bool{}, nl: "\n", multi: map[string]bool{}}
	g.clean = !p.Chance(1, 5)
	g.hostile = p.Chance(35, 100)
	if g.hostile {
		g.f("hostile")
	}
	g.wantBad = p.Chance(1, 2)
	g.budget = p.Range(4, 40)
	if p.Chance(1, 10) {
		g.nl = "\r\n"
		g.f("crlf")
	}
	if p.Chance(1, 30) {
		g.b.WriteString("\ufeff")
		g.f("bom")
	}
	// names that will be declared somewhere (so that references before the
	// declaration are forward references)
	nm, ns := p.Weighted([]int{30, 30, 25, 15}), p.Weighted([]int{40, 25, 20, 10, 5})
	var pendM, pendS []string
	for i := 0; i < nm; i++ {
		pendM = append(pendM, prng.Pick(p, macroNames))
	}
	for _, n := range macroNames {
		// arity class of every macro name in this input, fixed up front so that
		// forward references inside strings can be kept single-valued
		g.multi[n] = p.Chance(1, 4)
	}
	for i := 0; i < ns; i++ {
		pendS = append(pendS, prng.Pick(p, snippetNames))
	}
	if p.Bool() {
		// references see all names from the start: forward references possible
		g.macros = append(g.macros, pendM...)
		g.snips = append(g.snips, pendS...)
		g.f("forward-refs-possible")
	}
	top := p.Range(1, 10)
	for i := 0; i < top || len(pendM) > 0 || len(pendS) > 0; i++ {
		switch {
		case len(pendM) > 0 && p.Chance(1, 3):
			g.forceMacro = pendM[0]
			g.macroDecl()
			g.forceMacro = ""
			pendM = pendM[1:]
		case len(pendS) > 0 && p.Chance(1, 3):
			g.forceSnip = pendS[0]
			g.snippetDecl()
			g.forceSnip = ""
			pendS = pendS[1:]
		default:
			g.item(0, false)
		}
		if i > 60 {
			break
		}
	}
	if p.Chance(1, 15) {
		// no final newline
		s := g.b.String()
		s = strings.TrimRight(s, "\r\n")
		g.b.Reset()
		g.b.WriteString(s)
		g.f("no-final-newline")
	}
	for k := range g.feat {
		feats = append(feats, k)
	}
	return g.b.String(), feats, g.clean
}

// ---------------------------------------------------------------------------
// mutator

var dict = []string{
	"{", "}", " {", "} ", "{\n", "\n}", "\"", "\\", "\\\n", "\\\r\n", "\n", "\r", "\r\n", "#", " #", "$(", ")", "(", "$", " = ", "=",
	"import ", "import s0\n", "import $(m0)\n", "$(m0)", "$(m0) = ", "$(m0) = $(m1)\n", "(s0) {\n", "(s0)", "{env:C20_A}", "{env:", "}", "{env:C20_CB}",
	"\ufeff", "\x00", "\xff", "\xc3", " ", " ", "\u0085", " ", "\t", "\v", "\f", "a", "0", "٣", "\\\"", "\"\"", "\" \"", "{ }", "{}",
}

func mutate(p *prng.R, in []byte, rounds int) []byte {
	b := append([]byte(nil), in...)
	for r := 0; r < rounds; r++ {
		n := len(b)
		switch p.Intn(9) {
		case 0: // delete range
			if n == 0 {
				continue
			}
			i := p.Intn(n)
			k := p.Range(1, 8)
			if i+k > n {
				k = n - i
			}
			b = append(b[:i], b[i+k:]...)
		case 1, 2: // insert dictionary token
			i := p.Intn(n + 1)
			t := prng.Pick(p, dict)
			b = append(b[:i], append([]byte(t), b[i:]...)...)
		case 3: // replace byte
			if n == 0 {
				continue
			}
			b[p.Intn(n)] = byte(p.Intn(256))
		case 4: // duplicate range
			if n == 0 || n > 6000 {
				continue
			}
			i := p.Intn(n)
			k := p.Range(1, 40)
			if i+k > n {
				k = n - i
			}
			seg := append([]byte(nil), b[i:i+k]...)
			j := p.Intn(n + 1)
			b = append(b[:j], append(seg, b[j:]...)...)
		case 5: // swap two lines
			lines := strings.SplitAfter(string(b), "\n")
			if len(lines) < 2 {
				continue
			}
			i, j := p.Intn(len(lines)), p.Intn(len(lines))
			lines[i], lines[j] = lines[j], lines[i]
			b = []byte(strings.Join(lines, ""))
		case 6: // truncate
			if n == 0 {
				continue
			}
			b = b[:p.Intn(n)]
		case 7: // delete one byte of a structural kind
			idx := []int{}
			for i, c := range b {
				if c == '{' || c == '}' || c == '"' || c == '\n' || c == '\\' || c == ')' {
					idx = append(idx, i)
				}
			}
			if len(idx) == 0 {
				continue
			}
			i := prng.Pick(p, idx)
			b = append(b[:i], b[i+1:]...)
		default: // replace a whitespace by another kind of whitespace / nothing
			idx := []int{}
			for i, c := range b {
				if c == ' ' || c == '\n' || c == '\t' {
					idx = append(idx, i)
				}
			}
			if len(idx) == 0 {
				continue
			}
			i := prng.Pick(p, idx)
			t := prng.Pick(p, []string{"", " ", "\n", "\t", "\r\n", "\r", " ", " \\\n ", " "})
			b = append(b[:i], append([]byte(t), b[i+1:]...)...)
		}
	}
	return b
}

func genSoup(p *prng.R) []byte {
	var b strings.Builder
	n := p.Range(1, 60)
	for i := 0; i < n; i++ {
		switch p.Intn(5) {
		case 0:
			b.WriteString(prng.Pick(p, nameWords))
		case 1:
			b.WriteString(prng.Pick(p, plainArgs))
		case 2:
			b.Write(p.Bytes(p.Range(1, 4)))
		default:
			b.WriteString(prng.Pick(p, dict))
		}
		if p.Chance(1, 3) {
			b.WriteByte(' ')
		}
	}
	return []byte(b.String())
}

// ---------------------------------------------------------------------------
// targeted families (group B)

// nestText builds d nested blocks; style selects the layout.
func nestText(d int, style int) string {
	var b strings.Builder
	for i := 0; i < d; i++ {
		switch style {
		case 0:
			b.WriteString("b {\n")
		case 1:
			fmt.Fprintf(&b, "%sblk%d arg%d \"q %d\" { # open\n", strings.Repeat(" ", i%5), i, i, i)
		default:
			b.WriteString("n x \\\n y {\r\n")
		}
	}
	switch style {
	case 0:
		b.WriteString("leaf\n")
	case 1:
		b.WriteString("leaf v {\n}\n") // one more (empty) block at the bottom
	default:
		b.WriteString("leaf v }\n") // closes the innermost block as last argument
		d--
	}
	for i := 0; i < d; i++ {
		b.WriteString("}\n")
	}
	return b.String()
}

// importNest: a snippet whose body is `body` blocks deep imported from inside `site` nested blocks.
func importNest(site, body int, forward bool) string {
	var s strings.Builder
	s.WriteString("(deep) {\n")
	for i := 0; i < body; i++ {
		s.WriteString("c {\n")
	}
	s.WriteString("leaf 1\n")
	for i := 0; i < body; i++ {
		s.WriteString("}\n")
	}
	s.WriteString("}\n")
	var u strings.Builder
	for i := 0; i < site; i++ {
		u.WriteString("o {\n")
	}
	u.WriteString("import deep\n")
	for i := 0; i < site; i++ {
		u.WriteString("}\n")
	}
	if forward {
		return u.String() + s.String()
	}
	return s.String() + u.String()
}

// importChain: k snippets; kind selects how they reference each other.
func importChain(k int, kind string, fan int) string {
	var b strings.Builder
	name := func(i int) string { return fmt.Sprintf("c%d", i) }
	def := func(i int, targets ...string) {
		fmt.Fprintf(&b, "(%s) {\n  n%d v\n", name(i), i)
		for _, t := range targets {
			if t != "" {
				for f := 0; f < fan; f++ {
					fmt.Fprintf(&b, "  import %s\n", t)
				}
			}
		}
		b.WriteString("}\n")
	}
	use := func() { fmt.Fprintf(&b, "top {\n import %s\n}\n", name(0)) }
	switch kind {
	case "backward": // c_i imports c_{i+1}; defined in reverse order, use last
		for i := k - 1; i >= 0; i-- {
			t := ""
			if i+1 < k {
				t = name(i + 1)
			}
			def(i, t)
		}
		use()
	case "forward": // use first, then definitions each importing a later one
		use()
		for i := 0; i < k; i++ {
			t := ""
			if i+1 < k {
				t = name(i + 1)
			}
			def(i, t)
		}
	case "self":
		def(0, name(0))
		use()
	case "cycle":
		for i := 0; i < k; i++ {
			def(i, name((i+1)%k))
		}
		use()
	case "undefined-tail":
		for i := 0; i < k; i++ {
			def(i, name(i+1)) // last one imports an undefined name
		}
		use()
	case "redefined":
		def(0, "")
		def(0, name(1))
		def(1, "")
		use()
	case "import-with-block":
		def(0, "")
		fmt.Fprintf(&b, "top {\n import %s {\n  inner v\n }\n}\nimport %s { }\n", name(0), name(0))
	}
	return b.String()
}

var macroDeclForms = []string{
	"$(m) = v\n", "$(m) = v1 v2\n", "$(m) = $(undef)\n", "$(m) = $(m)\n", "$(m) = a\n$(m) = b c\n", "$(m) = \"\"\n",
	"$(m) = \"x y\"\n", "$(m) = {env:C20_A}\n", "$(m) = }\n", "$(m) = \"}\" x\n", "$(m) = { }\n", "$(m) =\n", "$(m) v\n", "$(m = v\n",
	"$(n) = w\n$(m) = pre$(n)post $(n)\n", "$(m) = x$(undef)y\n", "", "$(m)\n", "$(m) = =\n", "$(m) = \\\n v\n",
	"$($(n)) = v\n", "$($(m)) = v\nd $($(m))\n", "$(m) = v\n$() = w\nd $() x$()y\n",
	// oddities 2 and 3: two references in one token; a reference assembled from macro values
	"$(m) = 1\n$(r) = 2\n", "$(m) = \"$(\"\n$(r) = \")\"\n", "$(m) = \"$(\"\n$(r) = \")\"\n$(b) = B\n",
}
var macroUseForms = []string{
	"d $(m)\n", "d pre$(m)\n", "d $(m)post\n", "d a$(m)b$(m)c\n", "d \"q $(m) q\"\n", "$(m) d\n", "d$(m) v\n", "b {\n c $(m)\n e {\n  f x$(m)\n }\n}\n",
	"(s) {\n g $(m) z$(m)\n}\nh {\n import s\n}\n", "import $(m)\n", "d $(m) $(m)\n", "d {env:C20_A}$(m)\n", "d $(m){env:C20_A}\n", "d $(m) {\n k\n}\n", "d v $(m) }\n",
	"d \\\n $(m)\n", "d $(m)$(m)\n", "d ($(m))\n",
	"d $(m):$(r)\n", "d $(m)$(r)\n", "d x$(m):$(r)\n", "x q$(m)b$(r)\n", "blk {\n x q$(m)b$(r)\n}\n", "blk {\n in {\n  x q$(m)b$(r)\n }\n}\n",
}

var lexAlphabet = []string{"s", " ", "\"", "\\", "\n", "{", "}", "#", "$(m)", "(s)", "=", "import"}
