//go:build verif

package c20

// Group H: "parsing terminates without crashing" for inputs whose expansion is
// exponential in their length. Groups A-G skip such inputs (the expansion
// estimator keeps the shard processes alive); here each one is parsed by the
// real parser in a CHILD process (this test binary re-executed) that first
// lowers its own address-space limit (RLIMIT_AS) to oomLimit. The parent only
// observes the child's end: a parse error or a tree is "terminated"; a Go
// runtime "out of memory" abort is a crash of the parser on an input of less
// than 1 KiB. A control child parses a small input of the same kind under the
// same limit first; if that fails the case is inconclusive (the limit, not the
// parser, would be what was observed). No wall-clock verdict: the watchdog
// expiry is inconclusive.

import (
	"bytes"
	"context"
	"fmt"
	"os"
	"os/exec"
	"strconv"
	"strings"
	"syscall"
	"testing"
	"time"

	parser "github.com/foxcpp/maddy/framework/cfgparser"
	"verifkit/rep"
)

const (
	groupH   = 7_000_000
	oomLimit = 2 << 30 // bytes of address space the child allows itself
	oomEnv   = "VERIF_C20_OOM_CHILD"
)

func amplifier(kind string, fan, k int) string {
	var b strings.Builder
	switch kind {
	case "snippet":
		return fanoutSnippets(fan, k)
	case "snippet-in-block":
		// every snippet also carries a leaf and the first import sits inside a block
		for i := 0; i < k; i++ {
			fmt.Fprintf(&b, "(s%d) {\n", i)
			for f := 0; f < fan; f++ {
				fmt.Fprintf(&b, "import s%d\n", i+1)
			}
			b.WriteString("y\n}\n")
		}
		fmt.Fprintf(&b, "(s%d) {\nx\n}\nblk {\nimport s0\n}\n", k)
	case "macro-list":
		b.WriteString("$(m0) = x\n")
		for j := 1; j <= k; j++ {
			fmt.Fprintf(&b, "$(m%d) =", j)
			for f := 0; f < fan; f++ {
				fmt.Fprintf(&b, " $(m%d)", j-1)
			}
			b.WriteString("\n")
		}
		fmt.Fprintf(&b, "d $(m%d)\n", k)
	case "macro-string":
		b.WriteString("$(m0) = x\n")
		for j := 1; j <= k; j++ {
			fmt.Fprintf(&b, "$(m%d) = a", j)
			for f := 0; f < fan; f++ {
				fmt.Fprintf(&b, "$(m%d)", j-1)
			}
			b.WriteString("\n")
		}
		fmt.Fprintf(&b, "d v$(m%d)\n", k)
	}
	return b.String()
}

// TestVerifOOMChild is the child side. It does nothing unless the parent set oomEnv.
func TestVerifOOMChild(t *testing.T) {
	spec := os.Getenv(oomEnv)
	if spec == "" {
		t.Skip("child entry point of group H")
	}
	f := strings.Split(spec, ",")
	if len(f) != 3 {
		fmt.Println("CHILD-BADSPEC")
		os.Exit(3)
	}
	fan, _ := strconv.Atoi(f[1])
	k, _ := strconv.Atoi(f[2])
	text := amplifier(f[0], fan, k)
	lim := syscall.Rlimit{Cur: oomLimit, Max: oomLimit}
	if err := syscall.Setrlimit(syscall.RLIMIT_AS, &lim); err != nil {
		fmt.Println("CHILD-NOLIMIT", err)
		os.Exit(3)
	}
	fmt.Printf("CHILD-START input_bytes=%d\n", len(text))
	nodes, err := parser.Read(strings.NewReader(text), location)
	if err != nil {
		fmt.Printf("CHILD-RESULT error\n")
	} else {
		fmt.Printf("CHILD-RESULT tree top_level_nodes=%d\n", len(nodes))
	}
	os.Exit(0)
}

type oomRun struct {
	out      string
	exit     int
	timedOut bool
	startErr error
}

func runOOMChild(kind string, fan, k int) oomRun {
	ctx, cancel := context.WithTimeout(context.Background(), 10*time.Minute)
	defer cancel()
	cmd := exec.CommandContext(ctx, os.Args[0], "-test.run=^TestVerifOOMChild$", "-test.count=1")
	cmd.Env = append(os.Environ(), fmt.Sprintf("%s=%s,%d,%d", oomEnv, kind, fan, k), "GOGC=50")
	var buf bytes.Buffer
	cmd.Stdout = &buf
	cmd.Stderr = &buf
	err := cmd.Run()
	res := oomRun{out: buf.String()}
	if len(res.out) > 4000 {
		res.out = res.out[:4000]
	}
	if ctx.Err() != nil {
		res.timedOut = true
		return res
	}
	if err != nil {
		if ee, ok := err.(*exec.ExitError); ok {
			res.exit = ee.ExitCode()
		} else {
			res.startErr = err
		}
	}
	return res
}

func (h *harness) amplification() {
	type row struct {
		kind         string
		fan, k, ctlK int
	}
	// fan^k result units; every input is shorter than 1 KiB
	rows := []row{
		{"snippet", 2, 25, 8}, {"snippet", 3, 16, 5}, {"snippet", 4, 13, 4}, {"snippet", 8, 9, 3},
		{"snippet-in-block", 2, 25, 8}, {"snippet-in-block", 3, 16, 5},
		{"macro-list", 2, 28, 8}, {"macro-list", 3, 18, 5},
		{"macro-string", 2, 32, 8}, {"macro-string", 3, 21, 5},
	}
	for n, rw := range rows {
		rw := rw
		h.run(groupH+n, fmt.Sprintf("amplification-%s-fan%d-k%d", rw.kind, rw.fan, rw.k), func(c *rep.Case, st *stats) {
			text := amplifier(rw.kind, rw.fan, rw.k)
			if len(text) >= 1024 {
				c.Inconclusive("harness: amplifier input is not below 1 KiB")
				return
			}
			ctl := runOOMChild(rw.kind, rw.fan, rw.ctlK)
			if ctl.startErr != nil || ctl.timedOut || ctl.exit != 0 || !strings.Contains(ctl.out, "CHILD-RESULT tree") {
				// the limit, not the parser, would be what is observed: this input is not judged in this run
				// (min_observed keeps a run with too few judged inputs inconclusive)
				st.count["amplification_control_child_failed_input_not_judged"]++
				c.Done("amplification/"+rw.kind+"/control-failed", false)
				return
			}
			st.count["amplification_control_children_ok"]++
			res := runOOMChild(rw.kind, rw.fan, rw.k)
			st.count["amplification_children_run"]++
			shape := "amplification/" + rw.kind
			switch {
			case res.startErr != nil || res.timedOut || !strings.Contains(res.out, "CHILD-START"):
				// the child never got to the parser (or the watchdog fired): nothing was observed
				st.count["amplification_child_not_started_or_watchdog_input_not_judged"]++
				c.Done(shape+"/not-run", false)
				return
			case strings.Contains(res.out, "CHILD-RESULT error"):
				st.count["amplification_answered_with_error"]++
				shape += "/error"
			case strings.Contains(res.out, "CHILD-RESULT tree"):
				st.count["amplification_parsed_within_limit"]++
				shape += "/tree"
			case memoryExhaustionAbort(res.out):
				st.count["amplification_child_aborted_out_of_memory"]++
				shape += "/oom"
				head := res.out
				if j := strings.Index(head, "goroutine "); j > 0 {
					head = head[:j]
				}
				c.Violation("terminates/runtime-abort-out-of-memory/"+rw.kind+"-fan-out",
					fmt.Sprintf("parser.Read of a %d-byte input (%s fan-out %d, %d levels) ended in a Go runtime out-of-memory abort under an address-space limit of %d MiB", len(text), rw.kind, rw.fan, rw.k, oomLimit>>20),
					map[string]any{"input": text, "limit_bytes": oomLimit, "child_exit": res.exit, "child_output_head": head})
			default:
				// the child died in some other way: that is a crash of the parser too, but of a kind
				// this group does not understand; keep it visible without guessing
				st.count["amplification_child_died_otherwise"]++
				c.Violation("terminates/child-died/"+rw.kind+"-fan-out",
					fmt.Sprintf("parser.Read of a %d-byte input (%s fan-out %d, %d levels) killed the process (exit %d) without a result", len(text), rw.kind, rw.fan, rw.k, res.exit),
					map[string]any{"input": text, "child_exit": res.exit, "child_output_head": res.out})
			}
			h.r.Distinct("amplification_outcomes", fmt.Sprintf("%s/fan=%d/k=%d/input_bytes=%d/%s", rw.kind, rw.fan, rw.k, len(text), shape[strings.LastIndex(shape, "/")+1:]))
			c.Done(shape, true)
		})
	}
}

// memoryExhaustionAbort recognises the ways the Go runtime ends a process that ran into its address-space
// limit. Besides "out of memory" the runtime may fail while creating a thread or mapping a stack / arena
// ("failed to create new OS thread", "pthread_create failed", "newosproc", "errno=12", "errno=11", mmap
// failures): the same event, reported by whichever allocation hit the limit first (seen in a fresh sandbox:
// one of ten children died with exit 2 and none of the first two texts). A Go panic, a stack overflow, a
// deadlock report or a concurrent-map fatal are different defects and stay `child-died`.
func memoryExhaustionAbort(out string) bool {
	for _, different := range []string{"panic:", "stack overflow", "all goroutines are asleep", "concurrent map"} {
		if strings.Contains(out, different) {
			return false
		}
	}
	for _, pat := range []string{"out of memory", "cannot allocate", "failed to create new OS thread", "pthread_create failed",
		"newosproc", "errno=12", "errno=11", "mmap", "failed to allocate", "fatal error:", "runtime: "} {
		if strings.Contains(out, pat) {
			return true
		}
	}
	return false
}
