//go:build verif

package c20

import (
	"fmt"
	"os"
	"regexp"
	"strings"
	"unicode"
	"unicode/utf8"

	parser "github.com/foxcpp/maddy/framework/cfgparser"
)

// Location handed to the parser. Its directory does not exist, so a relative
// import that is not a snippet can never open a file; absolute paths are made
// impossible by sanitize().
const location = "/nonexistent-verif-c20/d/input.conf"

// Source nesting limit of the parser: a block may be opened while the current
// nesting is <= 255, i.e. at most 256 nested blocks in one source text.
const sourceDepthLimit = 256

// Import expansion is refused for an import directive enclosed in more than
// 255 blocks and splices a snippet body (itself at most 255 blocks deep),
// so any returned tree is at most 510 blocks deep. 512 is used as the bound
// for inputs that contain the word "import"; 256 for all others.
const expandedDepthLimit = 512

// ---------------------------------------------------------------------------
// independent statement of the directive-name rule: non-empty, does not start
// with a decimal digit, consists of letters, decimal digits, '.', '-', '_'.

func nameWellFormed(s string) bool {
	if s == "" || !utf8.ValidString(s) {
		return false
	}
	first := true
	for _, r := range s {
		isDigit := unicode.Is(unicode.Nd, r)
		if first && isDigit {
			return false
		}
		first = false
		if !(unicode.In(r, unicode.L) || isDigit || r == '.' || r == '-' || r == '_') {
			return false
		}
	}
	return true
}

func nameFeature(s string) string {
	switch {
	case s == "":
		return "empty"
	case strings.HasPrefix(s, "$("):
		return "macro-syntax"
	case strings.HasPrefix(s, "("):
		return "snippet-syntax"
	case strings.Contains(s, "{env:"):
		return "env-placeholder"
	case strings.ContainsAny(s, "{}"):
		return "brace"
	}
	r, _ := utf8.DecodeRuneInString(s)
	if unicode.Is(unicode.Nd, r) {
		return "leading-digit"
	}
	if strings.ContainsAny(s, " \t\n\r") {
		return "whitespace"
	}
	if strings.ContainsAny(s, "\"\\") {
		return "quote-or-backslash"
	}
	if !utf8.ValidString(s) || strings.ContainsRune(s, utf8.RuneError) {
		return "invalid-utf8"
	}
	return "other-character"
}

// ---------------------------------------------------------------------------
// tree facts

type treeFacts struct {
	nodes     int
	depth     int // maximal number of enclosing blocks of a node (top level = 0) + 1 for an empty block
	maxArgs   int
	emptyBlk  int
	nilBlk    int
	dollarArg string // first argument containing '$'
	hasDollar bool
}

type treeViolation struct {
	sig  string
	what string
}

// checkTree evaluates the unconditional clauses on a returned tree.
func checkTree(nodes []parser.Node, sLevel int, depthLimit int) (f treeFacts, viols []treeViolation) {
	seen := map[string]bool{}
	add := func(sig, what string) {
		if !seen[sig] {
			seen[sig] = true
			viols = append(viols, treeViolation{sig, what})
		}
	}
	type frame struct {
		ns    []parser.Node
		depth int
	}
	// explicit stack: the walk must not overflow on a (defective) very deep tree
	stack := []frame{{nodes, 0}}
	for len(stack) > 0 {
		fr := stack[len(stack)-1]
		stack = stack[:len(stack)-1]
		for i := range fr.ns {
			n := &fr.ns[i]
			f.nodes++
			if fr.depth > f.depth {
				f.depth = fr.depth
			}
			if n.Snippet {
				add("tree/snippet-node-left", fmt.Sprintf("node %q (line %d) is still marked as a snippet declaration", n.Name, n.Line))
			}
			if n.Macro {
				add("tree/macro-node-left", fmt.Sprintf("node %q (line %d) is still marked as a macro declaration", n.Name, n.Line))
			}
			if n.Name == "import" {
				add("tree/import-left", fmt.Sprintf("node named import with args %q at depth %d (line %d) remains in the tree", n.Args, fr.depth, n.Line))
			} else if !nameWellFormed(n.Name) {
				add("tree/bad-name/"+nameFeature(n.Name), fmt.Sprintf("directive name %q (line %d) is not well-formed", n.Name, n.Line))
			}
			if len(n.Args) > f.maxArgs {
				f.maxArgs = len(n.Args)
			}
			for _, a := range n.Args {
				if strings.IndexByte(a, '$') >= 0 {
					if !f.hasDollar {
						f.hasDollar = true
						f.dollarArg = a
					}
					if sLevel == 2 || (sLevel == 1 && strings.Contains(a, "$(")) {
						kind := "partial"
						if macroRefRe.MatchString(a) {
							kind = "reference"
						}
						add("tree/macro-unexpanded/"+kind, fmt.Sprintf("argument %q of %q (line %d) still contains a macro reference although every \"$(\" of the input starts a complete simple macro reference", a, n.Name, n.Line))
					}
				}
			}
			if n.Children != nil {
				if len(n.Children) == 0 {
					f.emptyBlk++
					if fr.depth+1 > f.depth {
						f.depth = fr.depth + 1
					}
				}
				stack = append(stack, frame{n.Children, fr.depth + 1})
			} else {
				f.nilBlk++
			}
		}
	}
	if f.depth > depthLimit {
		add(fmt.Sprintf("tree/depth-over-limit/limit=%d", depthLimit), fmt.Sprintf("tree has %d nested blocks, the limit for this input is %d", f.depth, depthLimit))
	}
	return
}

var macroRefRe = regexp.MustCompile(`\$\([A-Za-z0-9_.\-]+\)`)

// ---------------------------------------------------------------------------
// canonical printer (quoted syntax) and expressibility

// tokenQuotable: inside quotes only `\"` is an escape; a backslash run that is
// followed by '"' or by the end of the token can be written iff it has even length.
func tokenQuotable(s string) bool {
	run := 0
	for i := 0; i < len(s); i++ {
		switch s[i] {
		case '\\':
			run++
		case '"':
			if run%2 == 1 {
				return false
			}
			run = 0
		default:
			run = 0
		}
	}
	return run%2 == 0
}

func quoteToken(b *strings.Builder, s string) {
	b.WriteByte('"')
	for i := 0; i < len(s); i++ {
		if s[i] == '"' {
			b.WriteByte('\\')
		}
		b.WriteByte(s[i])
	}
	b.WriteByte('"')
}

// inexpressible returns "" when the tree can be written in quoted syntax so
// that the text denotes the same tree, else the reason class.
func inexpressible(nodes []parser.Node) string {
	type frame struct{ ns []parser.Node }
	stack := []frame{{nodes}}
	for len(stack) > 0 {
		fr := stack[len(stack)-1]
		stack = stack[:len(stack)-1]
		for i := range fr.ns {
			n := &fr.ns[i]
			if !nameWellFormed(n.Name) || n.Name == "import" {
				return "bad-name"
			}
			for j, a := range n.Args {
				switch {
				case !utf8.ValidString(a):
					return "invalid-utf8"
				case !tokenQuotable(a):
					return "odd-backslash-run"
				case a == "{":
					return "brace-token"
				case a == "}" && j == len(n.Args)-1:
					return "brace-token"
				case !macroInert(a):
					return "macro-syntax"
				case !envInert(a):
					return "env-syntax"
				}
			}
			if n.Children != nil {
				stack = append(stack, frame{n.Children})
			}
		}
	}
	return ""
}

// macroInert: the token contains nothing the parser would treat as a macro
// reference when it reads the token again (there is no way to escape one in
// any syntax, so such tokens are outside "expressible in the quoted syntax").
// A reference is "$(" + one or more non-'$' characters + ")", or a whole token
// of the form "$(" ... ")".
func macroInert(a string) bool {
	if strings.HasPrefix(a, "$(") && strings.HasSuffix(a, ")") {
		return false
	}
	for i := 0; i+1 < len(a); i++ {
		if a[i] != '$' || a[i+1] != '(' {
			continue
		}
		for k := i + 2; k < len(a) && a[k] != '$'; k++ {
			if a[k] == ')' && k > i+2 {
				return false
			}
		}
	}
	return true
}

// envInert: no "{env:" + one or more characters + "}" can be found in the token.
func envInert(a string) bool {
	i := strings.Index(a, "{env:")
	if i < 0 {
		return true
	}
	return strings.LastIndex(a, "}") < i+6
}

func printTree(nodes []parser.Node) string {
	var b strings.Builder
	var rec func(ns []parser.Node, depth int)
	rec = func(ns []parser.Node, depth int) {
		for i := range ns {
			n := &ns[i]
			for k := 0; k < depth&7; k++ {
				b.WriteByte(' ')
			}
			quoteToken(&b, n.Name)
			for _, a := range n.Args {
				b.WriteByte(' ')
				quoteToken(&b, a)
			}
			if n.Children != nil {
				b.WriteString(" {\n")
				rec(n.Children, depth+1)
				for k := 0; k < depth&7; k++ {
					b.WriteByte(' ')
				}
				b.WriteString("}")
			}
			b.WriteByte('\n')
		}
	}
	rec(nodes, 0)
	return b.String()
}

func argFeature(s string) string {
	switch {
	case strings.Contains(s, "\n"):
		return "newline"
	case strings.Contains(s, "\r"):
		return "cr"
	case strings.Contains(s, "\""):
		return "quote"
	case strings.Contains(s, "\\"):
		return "backslash"
	case strings.Contains(s, "#"):
		return "hash"
	case strings.ContainsAny(s, "{}"):
		return "brace"
	case s == "":
		return "empty"
	case strings.ContainsAny(s, " \t"):
		return "space"
	}
	for _, r := range s {
		if unicode.IsSpace(r) {
			return "unicode-space"
		}
		if r == 0xFEFF {
			return "bom"
		}
		if r > 0x7f {
			return "non-ascii"
		}
	}
	return "plain"
}

// sameTree compares name, arguments and block structure (nil block vs empty
// block is part of the tree: the parser documents nil as "no block").
func sameTree(a, b []parser.Node) (class, what string) {
	type pair struct {
		a, b []parser.Node
		path string
	}
	stack := []pair{{a, b, ""}}
	for len(stack) > 0 {
		p := stack[len(stack)-1]
		stack = stack[:len(stack)-1]
		if len(p.a) != len(p.b) {
			return "node-count", fmt.Sprintf("at %q: %d nodes became %d", p.path, len(p.a), len(p.b))
		}
		for i := range p.a {
			x, y := &p.a[i], &p.b[i]
			if x.Name != y.Name {
				return "name", fmt.Sprintf("at %q: name %q became %q", p.path, x.Name, y.Name)
			}
			if len(x.Args) != len(y.Args) {
				return "arg-count", fmt.Sprintf("at %q: node %q args %q became %q", p.path, x.Name, x.Args, y.Args)
			}
			for j := range x.Args {
				if x.Args[j] != y.Args[j] {
					return "arg/" + argFeature(x.Args[j]), fmt.Sprintf("at %q: node %q arg %d %q became %q", p.path, x.Name, j, x.Args[j], y.Args[j])
				}
			}
			if (x.Children == nil) != (y.Children == nil) {
				return "block-nil-vs-empty", fmt.Sprintf("at %q: node %q block presence changed (nil=%v -> nil=%v)", p.path, x.Name, x.Children == nil, y.Children == nil)
			}
			if x.Children != nil {
				path := p.path
				if len(path) < 200 {
					path += "/" + x.Name
				}
				stack = append(stack, pair{x.Children, y.Children, path})
			}
		}
	}
	return "", ""
}

// ---------------------------------------------------------------------------
// input preparation

// sanitize makes file access through `import` impossible: when the text (with
// CR removed, as the tokenizer drops CR) contains the word import, every '/'
// is replaced by '|'. Import targets are then relative names below a
// directory that does not exist.
func sanitize(in []byte) []byte {
	hasImport := strings.Contains(strings.ReplaceAll(string(in), "\r", ""), "import")
	if !hasImport {
		return in
	}
	out := make([]byte, len(in))
	for i, c := range in {
		if c == '/' {
			c = '|'
		}
		out[i] = c
	}
	return out
}

// envSetup removes environment entries that would make placeholder expansion
// produce '$' (the macro clause is judged on "no '$' left") and defines the
// variables the generator refers to.
var harnessEnv = map[string]string{
	"C20_A":     "alpha",
	"C20_EMPTY": "",
	"C20_SP":    "two words",
	"C20_Q":     `q"uote`,
	"C20_NL":    "l1\nl2",
	"C20_BS":    `tail\`,
	"C20_CB":    "}",
	"C20_OB":    "{",
	"C20_IMP":   "import",
	"C20_ENV":   "{env:C20_A}",
	"C20_HASH":  "#x",
}

func envSetup() (removed int) {
	for _, e := range os.Environ() {
		kv := strings.SplitN(e, "=", 2)
		if len(kv) != 2 {
			continue
		}
		if strings.Contains(e, "$") || strings.Contains(kv[1], "{env:") {
			os.Unsetenv(kv[0])
			removed++
		}
	}
	for k, v := range harnessEnv {
		os.Setenv(k, v)
	}
	return
}
