//go:build verif

package c20

// A literal port of the tokenizer's observable behaviour, used ONLY by the
// harness to (a) decide whether an input is inside the sub-domain where a
// clause is judged (condition S for the macro clause), and (b) estimate the
// snippet expansion size BEFORE the real parser is called (the parser has no
// expansion budget; inputs over the cap are skipped, never judged). It is not
// an oracle: no verdict compares the real tokenizer against this one.

import (
	"strings"
	"unicode"
	"unicode/utf8"
)

type tok struct {
	text string
	line int
}

type refLexer struct {
	in   []byte
	pos  int
	line int
	tok  tok
}

func (l *refLexer) readRune() (rune, bool) {
	if l.pos >= len(l.in) {
		return 0, false
	}
	r, sz := utf8.DecodeRune(l.in[l.pos:])
	l.pos += sz
	return r, true
}

func (l *refLexer) next() bool {
	var val []rune
	var comment, quoted, escaped bool
	for {
		ch, ok := l.readRune()
		if !ok {
			if len(val) > 0 {
				l.tok.text = string(val)
				return true
			}
			return false
		}
		if quoted {
			if !escaped {
				if ch == '\\' {
					escaped = true
					continue
				} else if ch == '"' {
					l.tok.text = string(val)
					return true
				}
			}
			if ch == '\n' {
				l.line++
			}
			if escaped {
				if ch != '"' {
					val = append(val, '\\')
				}
			}
			val = append(val, ch)
			escaped = false
			continue
		}
		if unicode.IsSpace(ch) {
			if ch == '\r' {
				continue
			}
			if ch == '\n' {
				l.line++
				comment = false
			}
			if len(val) > 0 {
				l.tok.text = string(val)
				return true
			}
			continue
		}
		if ch == '#' {
			comment = true
		}
		if comment {
			continue
		}
		if len(val) == 0 {
			l.tok = tok{line: l.line}
			if ch == '"' {
				quoted = true
				continue
			}
		}
		val = append(val, ch)
	}
}

func refLex(in []byte) []tok {
	l := &refLexer{in: in, line: 1}
	if r, sz := utf8.DecodeRune(in); sz > 0 && r == 0xFEFF {
		l.pos = sz
	}
	var out []tok
	for l.next() {
		out = append(out, l.tok)
	}
	return out
}

func nlCount(s string) int { return strings.Count(s, "\n") }

// ---------------------------------------------------------------------------
// Condition S: every '$' inside every token starts a complete simple macro
// reference "$(" NAME ")" with NAME over [A-Za-z0-9_.-]. Under S (and with no
// '$' in any environment value, which TestVerif establishes) the parser's
// macro expansion leaves no '$' at all in any argument: whole-token
// references are replaced by (inductively '$'-free) value lists or dropped,
// in-string references are all matched by the expansion pattern and replaced
// by '$'-free single values. Outside S the macro clause is not judged
// (nested or partial references legitimately leave "$(...)"-looking text).

func isSimpleMacroNameByte(c byte) bool {
	return c >= 'a' && c <= 'z' || c >= 'A' && c <= 'Z' || c >= '0' && c <= '9' || c == '_' || c == '.' || c == '-'
}

func tokenSatisfiesS(s string) bool {
	for i := 0; i < len(s); i++ {
		if s[i] != '$' {
			continue
		}
		j := i + 1
		if j >= len(s) || s[j] != '(' {
			return false
		}
		j++
		k := j
		for k < len(s) && isSimpleMacroNameByte(s[k]) {
			k++
		}
		if k == j || k >= len(s) || s[k] != ')' {
			return false
		}
		i = k
	}
	return true
}

// Condition S1 (weaker): every token either satisfies S or contains no
// parenthesis at all and does not end in '$' (e.g. the replacement pattern
// "$1@$3" of the shipped configuration). Such tokens are never touched by
// macro expansion and, used as macro values, cannot form "$(" at a junction
// (the text before a reference never ends in '$' inside an S token). Under S1
// no argument of the result may contain "$(".
//
// level 2 = S, 1 = S1 only, 0 = neither (macro clause not judged).
func conditionS(toks []tok) (level int, dollars int) {
	level = 2
	for _, t := range toks {
		if strings.IndexByte(t.text, '$') < 0 {
			continue
		}
		dollars++
		if tokenSatisfiesS(t.text) {
			continue
		}
		if !strings.ContainsAny(t.text, "()") && !strings.HasSuffix(t.text, "$") {
			if level > 1 {
				level = 1
			}
			continue
		}
		level = 0
	}
	return
}

// ---------------------------------------------------------------------------
// Expansion size estimate (an over-approximation of the number of nodes the
// import expansion can create, including the self/cyclic case which the parser
// cuts only at expansion depth 256).

type snipDef struct {
	name    string
	lo, hi  int // body tokens [lo,hi)
	imports []int
}

func satAdd(a, b, cap int64) int64 {
	if a > cap || b > cap || a+b > cap {
		return cap + 1
	}
	return a + b
}

// structure computes, for a token list, the matching closing brace of every
// "{" (n when unclosed) and the number of open blocks at every token.
// A "}" token closes a block iff it directly follows "{", or is the last token
// on its line, or is the first token on its line and the previous line is not
// continued with a backslash; any other "}" is an ordinary argument.
func structure(toks []tok) (match, depthAt []int) {
	n := len(toks)
	firstOnLine := func(k int) bool {
		return k == 0 || toks[k-1].line+nlCount(toks[k-1].text) < toks[k].line
	}
	lastOnLine := func(k int) bool {
		return k == n-1 || toks[k].line+nlCount(toks[k].text) < toks[k+1].line
	}
	match = make([]int, n)
	depthAt = make([]int, n)
	var stack []int
	for k := 0; k < n; k++ {
		match[k] = n
		depthAt[k] = len(stack)
		switch toks[k].text {
		case "{":
			stack = append(stack, k)
		case "}":
			closing := (k > 0 && toks[k-1].text == "{") || lastOnLine(k) || (firstOnLine(k) && !(k > 0 && toks[k-1].text == `\`))
			if closing && len(stack) > 0 {
				match[stack[len(stack)-1]] = k
				stack = stack[:len(stack)-1]
			}
		}
	}
	return
}

func estimateExpansion(toks []tok, cap int64) (cost int64, nImports, nSnippets int) {
	n := len(toks)
	match, _ := structure(toks)
	var imports []int
	for k := 0; k < n; k++ {
		if toks[k].text == "import" {
			imports = append(imports, k)
		}
	}
	nImports = len(imports)
	if nImports == 0 {
		return int64(n), 0, 0
	}
	target := func(k int) string {
		j := k + 1
		for j < n && toks[j].text == `\` {
			j++
		}
		if j < n {
			return toks[j].text
		}
		return ""
	}
	var defs []snipDef
	byName := map[string][]int{}
	for k := 0; k < n; k++ {
		t := toks[k].text
		if len(t) < 2 || t[0] != '(' || t[len(t)-1] != ')' {
			continue
		}
		j := k + 1
		for j < n && toks[j].text == `\` {
			j++
		}
		if j >= n || toks[j].text != "{" {
			continue
		}
		d := snipDef{name: t[1 : len(t)-1], lo: j + 1, hi: match[j]}
		for _, ik := range imports {
			if ik >= d.lo && ik < d.hi {
				d.imports = append(d.imports, ik)
			}
		}
		byName[d.name] = append(byName[d.name], len(defs))
		defs = append(defs, d)
	}
	nSnippets = len(defs)
	prev := make([]int64, len(defs))
	cur := make([]int64, len(defs))
	tgt := func(name string, level []int64) int64 {
		var m int64
		if strings.Contains(name, "$(") {
			for _, c := range level {
				if c > m {
					m = c
				}
			}
			return m
		}
		for _, di := range byName[name] {
			if level[di] > m {
				m = level[di]
			}
		}
		return m
	}
	for lvl := 0; lvl < 258; lvl++ {
		changed := false
		for di, d := range defs {
			c := int64(d.hi - d.lo)
			for _, ik := range d.imports {
				c = satAdd(c, tgt(target(ik), prev), cap)
			}
			cur[di] = c
			if c != prev[di] {
				changed = true
			}
		}
		prev, cur = cur, prev
		if !changed {
			break
		}
	}
	cost = int64(n)
	for _, ik := range imports {
		cost = satAdd(cost, tgt(target(ik), prev), cap)
	}
	return cost, nImports, nSnippets
}

// ---------------------------------------------------------------------------
// Macro expansion size estimate (bytes), an over-approximation.
//
// The parser expands macros with no budget either: "$(m) = x$(m)$(m)" repeated
// k times doubles the value k times, and because a node is expanded once when
// it is read and once more by every enclosing block, a value that still
// contains "$(" text (possible only outside conditions S/S1) is re-expanded
// once per nesting level. Inputs whose estimate exceeds the byte cap are
// skipped like inputs over the node cap.
//
// Model: Smax = largest total size of any macro's values so far, Dmax = largest
// number of "$(" occurrences that may be left in any macro's values. One pass
// over a token with d occurrences of "$(" adds at most d*Smax bytes and leaves
// at most d*f occurrences, f = 0 under S/S1 (values are free of "$("),
// otherwise max(1, Dmax) (+2 when the input has a '$' not followed by '(',
// which is the only way a new "$(" can be formed at a junction).
func estimateMacroBytes(toks []tok, level int, cap int64) int64 {
	n := len(toks)
	hasRef := false
	bare := false
	for _, t := range toks {
		s := t.text
		for i := 0; i < len(s); i++ {
			if s[i] == '$' {
				if i+1 < len(s) && s[i+1] == '(' {
					hasRef = true
				} else {
					bare = true
				}
			}
		}
	}
	if !hasRef {
		return 0
	}
	satMul := func(a, b int64) int64 {
		if a == 0 || b == 0 {
			return 0
		}
		if a > cap || b > cap || a > cap/b {
			return cap + 1
		}
		return a * b
	}
	firstOnLine := func(k int) bool {
		return k == 0 || toks[k-1].line+nlCount(toks[k-1].text) < toks[k].line
	}
	var smax, dmax int64
	factor := func() int64 {
		if level >= 1 {
			return 0
		}
		f := dmax
		if f < 1 {
			f = 1
		}
		if bare {
			f += 2
		}
		return f
	}
	// expand models `passes` expansion passes over one token
	expand := func(s string, passes int) (size, left int64) {
		size = int64(len(s))
		d := int64(strings.Count(s, "$("))
		for p := 0; p < passes && d > 0; p++ {
			size = satAdd(size, satMul(d, smax), cap)
			d = satMul(d, factor())
			if size > cap {
				break
			}
		}
		return size, d
	}
	var total int64
	_, depthAt := structure(toks)
	for k := 0; k < n; k++ {
		t := toks[k].text
		depth := depthAt[k]
		if firstOnLine(k) && len(t) >= 3 && strings.HasPrefix(t, "$(") && strings.HasSuffix(t, ")") && k+1 < n && toks[k+1].text == "=" {
			// declaration: values are the rest of the logical line
			var sk, dk int64
			j := k + 2
			for j < n && (!firstOnLine(j) || toks[j-1].text == `\`) {
				s, d := expand(toks[j].text, 1)
				sk = satAdd(sk, s, cap)
				dk = satAdd(dk, d, cap)
				j++
			}
			if sk > smax {
				smax = sk
			}
			if dk > dmax {
				dmax = dk
			}
			total = satAdd(total, sk, cap)
			k = j - 1
			continue
		}
		if strings.Contains(t, "$(") {
			s, _ := expand(t, depth+3)
			total = satAdd(total, s, cap)
		}
		if total > cap {
			return total
		}
	}
	return total
}
