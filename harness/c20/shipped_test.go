//go:build verif

package c20

// Shipped configuration files: maddy.conf and maddy.conf.docker of the tree
// under test ($VERIF_REPO) must parse (same tree monitors and round-trip law
// as for generated inputs) and their pipeline-bearing blocks must pass
// validation. Validation runs in a CHILD PROCESS (this test binary re-executed
// with -test.run ^TestChildShipped$): module/instance registries, the working
// directory and config.StateDirectory are process-global, and an endpoint
// cannot be closed without a client having connected once; a throw-away
// process avoids all of that and the parent can time it out.

import (
	"bytes"
	"context"
	"encoding/json"
	"errors"
	"fmt"
	"net"
	"os"
	"os/exec"
	"path/filepath"
	"runtime/debug"
	"strings"
	"syscall"
	"testing"
	"time"

	"github.com/foxcpp/maddy"
	parser "github.com/foxcpp/maddy/framework/cfgparser"
	"github.com/foxcpp/maddy/framework/config"
	"github.com/foxcpp/maddy/framework/module"
	"github.com/foxcpp/maddy/internal/msgpipeline"
	"verifkit/certs"
	"verifkit/rep"
)

type childStage struct {
	Stage string `json:"stage"` // parse | globals | dirs | register | init-endpoint | init-block | pipeline-new
	Block string `json:"block"` // e.g. "smtp", "submission", "msgpipeline local_routing"
	Kind  string `json:"kind"`  // module name (signature material)
	OK    bool   `json:"ok"`
	Err   string `json:"err,omitempty"`
	Env   bool   `json:"env_caused,omitempty"`
}

type childResult struct {
	Stages     []childStage `json:"stages"`
	Panic      string       `json:"panic,omitempty"`
	Finished   bool         `json:"finished"`
	Inventory  []string     `json:"pipeline_bearing_blocks"`
	SMTPBanner string       `json:"smtp_banner,omitempty"`
}

var pipelineDirectives = map[string]bool{
	"check": true, "modify": true, "source": true, "source_in": true, "default_source": true, "destination": true,
	"destination_in": true, "default_destination": true, "deliver_to": true, "reroute": true, "reject": true,
}

func envCaused(err error) bool {
	var pe *os.PathError
	var oe *net.OpError
	var se *os.SyscallError
	var en syscall.Errno
	if errors.As(err, &pe) || errors.As(err, &oe) || errors.As(err, &se) || errors.As(err, &en) || errors.Is(err, context.DeadlineExceeded) {
		return true
	}
	s := strings.ToLower(err.Error())
	for _, k := range []string{"no such file", "permission denied", "address already in use", "too many open files", "no space left",
		"database is locked", "unable to open database", "read-only file system", "i/o timeout", "resource temporarily unavailable",
		"cannot allocate memory", "disk quota", "connection refused", "operation not permitted"} {
		if strings.Contains(s, k) {
			return true
		}
	}
	return false
}

// TestChildShipped is the child entry point; it does nothing unless the
// parent set C20_CHILD_FILE. (Its name does not match the driver's ^TestVerif.)
func TestChildShipped(t *testing.T) {
	file := os.Getenv("C20_CHILD_FILE")
	if file == "" {
		t.Skip("child entry point of C20's shipped-configuration case")
	}
	out := os.Getenv("C20_CHILD_OUT")
	scratch := os.Getenv("C20_CHILD_SCRATCH")
	res := &childResult{}
	write := func() {
		b, _ := json.MarshalIndent(res, "", " ")
		os.WriteFile(out, b, 0o666)
	}
	defer func() {
		if v := recover(); v != nil {
			res.Panic = fmt.Sprintf("%v\n%s", v, truncate(string(debug.Stack()), 6000))
		}
		write()
	}()
	stage := func(st, block, kind string, err error) bool {
		s := childStage{Stage: st, Block: block, Kind: kind, OK: err == nil}
		if err != nil {
			s.Err = err.Error()
			s.Env = envCaused(err)
		}
		res.Stages = append(res.Stages, s)
		write()
		return err == nil
	}

	os.Setenv("MADDY_HOSTNAME", "mx.example.org")
	os.Setenv("MADDY_DOMAIN", "example.org")

	f, err := os.Open(file)
	if err != nil {
		stage("parse", file, "open", err)
		return
	}
	nodes, err := parser.Read(f, file)
	f.Close()
	if !stage("parse", filepath.Base(file), "parse", err) {
		return
	}

	// environment substitutions: certificate files, state and runtime directories
	leaf := certs.SelfSigned(certs.LeafOpts{DNSNames: []string{"mx.example.org", "example.org"}})
	certPath, keyPath := filepath.Join(scratch, "fullchain.pem"), filepath.Join(scratch, "privkey.pem")
	if err := os.WriteFile(certPath, leaf.CertPEM(), 0o600); err != nil {
		stage("dirs", "certificate", "env", &os.PathError{Op: "write", Path: certPath, Err: err})
		return
	}
	os.WriteFile(keyPath, leaf.KeyPEM(), 0o600)
	var cfg []config.Node
	cfg = append(cfg,
		config.Node{Name: "state_dir", Args: []string{filepath.Join(scratch, "state")}, File: "harness", Line: 1},
		config.Node{Name: "runtime_dir", Args: []string{filepath.Join(scratch, "run")}, File: "harness", Line: 2})
	for _, n := range nodes {
		switch {
		case n.Name == "state_dir" || n.Name == "runtime_dir":
			continue
		case n.Name == "tls" && len(n.Args) == 3 && n.Args[0] == "file":
			n.Args = []string{"file", certPath, keyPath}
		}
		cfg = append(cfg, n)
	}

	globals, modBlocks, err := maddy.ReadGlobals(cfg)
	if !stage("globals", "global directives", "globals", err) {
		return
	}
	if err := maddy.InitDirs(); err != nil {
		s := childStage{Stage: "dirs", Block: "state/runtime directories", Kind: "env", Err: err.Error(), Env: true}
		res.Stages = append(res.Stages, s)
		return
	}
	endpoints, mods, err := maddy.RegisterModules(globals, modBlocks)
	if !stage("register", "module blocks", "register", err) {
		return
	}

	// inventory of pipeline-bearing blocks
	hasPipeline := func(n config.Node) bool {
		for _, ch := range n.Children {
			if pipelineDirectives[ch.Name] {
				return true
			}
		}
		return false
	}
	for _, e := range endpoints {
		if hasPipeline(e.Cfg) {
			res.Inventory = append(res.Inventory, "endpoint "+e.Cfg.Name)
		}
	}
	for _, m := range mods {
		if m.Cfg.Name == "msgpipeline" || hasPipeline(m.Cfg) {
			res.Inventory = append(res.Inventory, "block "+m.Cfg.Name+" "+m.Instance.InstanceName())
		}
		for _, ch := range m.Cfg.Children {
			if ch.Name == "bounce" && hasPipeline(ch) {
				res.Inventory = append(res.Inventory, "bounce of "+m.Cfg.Name+" "+m.Instance.InstanceName())
			}
		}
	}

	// endpoints that carry a pipeline: build a fresh instance on a loopback
	// port chosen by the kernel and initialise it with the shipped block.
	var firstSMTP string
	for _, e := range endpoints {
		if !hasPipeline(e.Cfg) {
			continue
		}
		name := e.Cfg.Name
		factory := module.GetEndpoint(name)
		if factory == nil {
			stage("init-endpoint", name, name, fmt.Errorf("no endpoint factory registered for %s", name))
			continue
		}
		// The port is picked by the kernel, released and handed to the endpoint;
		// another process may grab it in between, so "address already in use"
		// is retried with a fresh port (a fresh endpoint instance each time).
		var addr string
		for attempt := 0; ; attempt++ {
			var l net.Listener
			l, err = net.Listen("tcp", "127.0.0.1:0")
			if err != nil {
				break
			}
			addr = l.Addr().String()
			l.Close()
			var inst module.Module
			inst, err = factory(name, []string{"tcp://" + addr})
			if err != nil {
				break
			}
			err = inst.Init(config.NewMap(globals, e.Cfg))
			if err == nil || attempt >= 4 || !strings.Contains(err.Error(), "address already in use") {
				break
			}
		}
		if stage("init-endpoint", name, name, err) && firstSMTP == "" {
			firstSMTP = addr
		}
	}
	// module blocks that carry a pipeline and were not reached through a reference
	for _, m := range mods {
		bears := m.Cfg.Name == "msgpipeline" || hasPipeline(m.Cfg)
		for _, ch := range m.Cfg.Children {
			if ch.Name == "bounce" && hasPipeline(ch) {
				bears = true
			}
		}
		if !bears {
			continue
		}
		name := m.Instance.InstanceName()
		if module.Initialized[name] {
			stage("init-block", m.Cfg.Name+" "+name, m.Cfg.Name, nil) // initialised through a &reference, errors would have surfaced above
			continue
		}
		_, err := module.GetInstance(name)
		stage("init-block", m.Cfg.Name+" "+name, m.Cfg.Name, err)
	}
	// direct pipeline validation of every pipeline-bearing directive list
	// (referenced instances are initialised by now)
	pipe := func(block, kind string, children []config.Node) {
		var pn []config.Node
		for _, ch := range children {
			if pipelineDirectives[ch.Name] {
				pn = append(pn, ch)
			}
		}
		_, err := msgpipeline.New(globals, pn)
		stage("pipeline-new", block, kind, err)
	}
	for _, e := range endpoints {
		if hasPipeline(e.Cfg) {
			pipe(e.Cfg.Name, e.Cfg.Name, e.Cfg.Children)
		}
	}
	for _, m := range mods {
		if m.Cfg.Name == "msgpipeline" {
			pipe("msgpipeline "+m.Instance.InstanceName(), "msgpipeline", m.Cfg.Children)
		}
		for _, ch := range m.Cfg.Children {
			if ch.Name == "bounce" && hasPipeline(ch) {
				pipe("bounce of "+m.Instance.InstanceName(), m.Cfg.Name+"/bounce", ch.Children)
			}
		}
	}
	// one client connection (observation only): the initialised endpoint greets
	if firstSMTP != "" {
		if conn, err := net.DialTimeout("tcp", firstSMTP, 5*time.Second); err == nil {
			conn.SetDeadline(time.Now().Add(5 * time.Second))
			buf := make([]byte, 256)
			n, _ := conn.Read(buf)
			res.SMTPBanner = strings.TrimSpace(string(buf[:n]))
			conn.Write([]byte("QUIT\r\n"))
			conn.Close()
		}
	}
	res.Finished = true
	// no Close(): the process ends here
}

func (h *harness) shipped(t *testing.T) {
	repo := os.Getenv("VERIF_REPO")
	if repo == "" {
		repo = "/repo"
	}
	for k, name := range []string{"maddy.conf", "maddy.conf.docker"} {
		i := groupC + k
		h.run(i, "shipped-"+name, func(c *rep.Case, st *stats) {
			path := filepath.Join(repo, name)
			data, err := os.ReadFile(path)
			if err != nil {
				c.Inconclusive("cannot read " + path + ": " + err.Error())
				c.Done("shipped-unreadable", false)
				return
			}
			os.Setenv("MADDY_HOSTNAME", "mx.example.org")
			os.Setenv("MADDY_DOMAIN", "example.org")
			v := h.judgeAt(c, st, data, path, capGenerated, "shipped")
			os.Unsetenv("MADDY_HOSTNAME")
			os.Unsetenv("MADDY_DOMAIN")
			st.count["shipped_files_parsed"]++
			if v.skipped {
				c.Inconclusive("shipped file " + name + " exceeds the expansion cap of the harness")
			} else if v.isErr && v.err != nil {
				c.Violation("shipped/parse-error/"+errClass(v.err), fmt.Sprintf("%s does not parse: %v", name, v.err), map[string]any{"file": path})
			} else if !v.isErr {
				st.count["shipped_files_parse_ok"]++
				st.count["shipped_tree_nodes"] += int64(v.facts.nodes)
			}

			// validation in a child process
			scratch, err := os.MkdirTemp("", "c20-shipped-")
			if err != nil {
				c.Inconclusive("no scratch directory: " + err.Error())
				return
			}
			defer os.RemoveAll(scratch)
			outPath := filepath.Join(scratch, "result.json")
			ctx, cancel := context.WithTimeout(context.Background(), 300*time.Second)
			defer cancel()
			cmd := exec.CommandContext(ctx, os.Args[0], "-test.run", "^TestChildShipped$", "-test.count", "1", "-test.timeout", "0")
			cmd.Env = append(os.Environ(), "C20_CHILD_FILE="+path, "C20_CHILD_OUT="+outPath, "C20_CHILD_SCRATCH="+scratch)
			cmd.Dir = scratch
			var ob bytes.Buffer
			cmd.Stdout, cmd.Stderr = &ob, &ob
			runErr := cmd.Run()
			var res childResult
			b, rerr := os.ReadFile(outPath)
			if rerr == nil {
				rerr = json.Unmarshal(b, &res)
			}
			tail := truncate(ob.String(), 4000)
			if ctx.Err() != nil {
				c.Inconclusive("validation child for " + name + " timed out (watchdog, not a verdict)")
			}
			if rerr != nil {
				if ctx.Err() == nil {
					c.Inconclusive(fmt.Sprintf("validation child for %s left no result (%v, exit %v): %s", name, rerr, runErr, tail))
				}
				c.Done("shipped-"+name+"-child-failed", false)
				return
			}
			if res.Panic != "" {
				c.Violation("shipped/validation-panic/"+rep.PanicSite(res.Panic), "validation of "+name+" panicked: "+truncate(res.Panic, 300),
					map[string]any{"file": path, "stack": res.Panic, "stages": res.Stages})
			}
			okStages := 0
			pipeOK := map[string]bool{}
			for _, s := range res.Stages {
				if s.Stage == "pipeline-new" && s.OK {
					pipeOK[s.Block] = true
				}
			}
			for _, s := range res.Stages {
				if s.OK {
					okStages++
					st.count["shipped_stage_ok/"+s.Stage]++
					continue
				}
				if s.Env {
					// An endpoint that could not listen (no free port, ...) is still decided
					// when the pipeline of the same block was validated directly.
					if s.Stage == "init-endpoint" && pipeOK[s.Block] {
						st.count["shipped_endpoint_init_env_failure_but_pipeline_validated"]++
						continue
					}
					c.Inconclusive(fmt.Sprintf("%s: stage %s of %s failed for an environmental reason: %s", name, s.Stage, s.Block, s.Err))
					continue
				}
				if s.Stage == "parse" {
					continue // judged above by the parent
				}
				c.Violation("shipped/validation/"+s.Stage+"/"+s.Kind, fmt.Sprintf("%s: %s of %q fails: %s", name, s.Stage, s.Block, s.Err),
					map[string]any{"file": path, "stages": res.Stages, "child_output_tail": tail})
			}
			st.count["shipped_pipeline_bearing_blocks"] += int64(len(res.Inventory))
			if res.SMTPBanner != "" {
				st.count["shipped_endpoint_greeted_client"]++
			}
			if !res.Finished && res.Panic == "" && ctx.Err() == nil {
				// stopped at a failed stage; already reported above
				st.count["shipped_validation_stopped_early"]++
			}
			if res.Finished {
				st.count["shipped_validation_completed"]++
			}
			st.evals += int64(len(res.Stages))
			h.r.Sample(map[string]any{"origin": "shipped", "file": name, "pipeline_bearing_blocks": res.Inventory, "stages_ok": okStages, "stages": len(res.Stages), "banner": res.SMTPBanner})
			c.Done("shipped-"+name, true)
		})
	}
}
