//go:build verif

package dkim

import "github.com/foxcpp/maddy/framework/dns"

// VerifSetResolver assigns the resolver field, as dkim_test.go does
// (`check.resolver = &mockdns.Resolver{...}`).
func VerifSetResolver(c *Check, r dns.Resolver) { c.resolver = r }
