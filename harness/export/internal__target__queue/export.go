//go:build verif

package queue

import (
	"time"

	"github.com/foxcpp/maddy/framework/log"
	"github.com/foxcpp/maddy/framework/module"
)

// VerifOpts mirrors the fields newTestQueueDir (queue_test.go) assigns.
type VerifOpts struct {
	Dir              string
	Target           module.DeliveryTarget
	Bounce           module.DeliveryTarget // nil = no bounce pipeline
	MaxTries         int
	InitialRetryTime time.Duration
	RetryTimeScale   float64
	PostInitDelay    time.Duration
	Parallelism      int
	Hostname         string
	AutogenMsgDomain string
	Log              *log.Logger
}

// VerifNewQueue builds and starts a queue the way the pinned tests do.
func VerifNewQueue(o VerifOpts) (*Queue, error) {
	mod, _ := NewQueue("", "queue", nil, nil)
	q := mod.(*Queue)
	q.initialRetryTime = o.InitialRetryTime
	q.retryTimeScale = o.RetryTimeScale
	if q.retryTimeScale == 0 {
		q.retryTimeScale = 1
	}
	q.postInitDelay = o.PostInitDelay
	q.maxTries = o.MaxTries
	if q.maxTries == 0 {
		q.maxTries = 5
	}
	q.location = o.Dir
	q.Target = o.Target
	q.dsnPipeline = o.Bounce
	q.hostname = o.Hostname
	q.autogenMsgDomain = o.AutogenMsgDomain
	if o.Log != nil {
		q.Log = *o.Log
	} else {
		q.Log = log.Logger{Out: log.NopOutput{}}
	}
	par := o.Parallelism
	if par <= 0 {
		par = 1
	}
	if err := q.start(par); err != nil {
		return nil, err
	}
	return q, nil
}

// VerifSetDontRecover sets the package switch the pinned tests set in init().
func VerifSetDontRecover(v bool) { dontRecover = v }
