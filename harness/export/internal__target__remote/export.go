//go:build verif

package remote

// Export shim for the verification harnesses (C05, C09, C13).
//
// Rule: apart from exported API, only unexported identifiers that the pinned
// tests of this package reference too are used here:
//
//	Target fields  name hostname resolver dialer extResolver tlsConfig Log policies
//	               limits pool (testTarget), connReuseLimit (TestRemoteDelivery_ConnReuse),
//	               relaxedREQUIRETLS (mxauth_test.go)
//	mtastsPolicy   mtastsGet log          (testSTSPolicy)
//	danePolicy     extResolver log        (testDANEPolicy)
//	localPolicy    minTLSLevel minMXLevel (mxauth_test.go, dane_delivery_test.go)
//	verifyDANE, verifyDANETime            (TestVerifyDANE)
//	smtpPort                              (every delivery test)
//
// `allowSecOverride` is NOT referenced by any pinned test, so the target is
// built through the exported New + Init(config) path: all production defaults
// (requiretls_override yes, relaxed_requiretls yes, conn_reuse_limit 10, pool
// sizes, time-outs) come from Init itself and only the injectable parts
// (resolver, dialer, extResolver, tlsConfig, policies, limits, pool) are
// replaced afterwards, exactly the fields testTarget sets.

import (
	"context"
	"crypto/tls"
	"net"
	"strconv"
	"time"

	"github.com/foxcpp/go-mtasts"
	"github.com/foxcpp/maddy/framework/config"
	"github.com/foxcpp/maddy/framework/dns"
	"github.com/foxcpp/maddy/framework/log"
	"github.com/foxcpp/maddy/framework/module"
	"github.com/foxcpp/maddy/internal/limits"
	"github.com/foxcpp/maddy/internal/smtpconn/pool"
)

// VerifTargetOpts describes a remote target. Zero values select the
// production defaults of Target.Init.
type VerifTargetOpts struct {
	Name     string // instance name, default "remote"
	Hostname string // default "mx.example.com"

	Resolver    dns.Resolver                                                      // required
	Dialer      func(ctx context.Context, network, addr string) (net.Conn, error) // required
	ExtResolver *dns.ExtResolver                                                  // nil = no DNSSEC-aware resolver

	Policies []module.MXAuthPolicy // production order: mtasts, dane, dnssec, local_policy
	Limits   *limits.Group         // nil = empty group

	// TLSConfig is the client configuration (RootCAs ...). nil = &tls.Config{};
	// set NoTLS to run the target with a nil TLS configuration (never STARTTLS).
	TLSConfig *tls.Config
	NoTLS     bool

	// PoolConfig replaces the connection pool built by Init (nil = production:
	// MaxKeys 5000, MaxConnsPerKey 5, MaxConnLifetimeSec 150, StaleKeyLifetimeSec 300).
	PoolConfig *pool.Config
	// ConnReuseLimit: 0 = production default (10); negative = 0, which disables
	// pooling (what the pinned test helper silently does).
	ConnReuseLimit int

	// nil = production default (both true).
	RequireTLSOverride *bool
	RelaxedRequireTLS  *bool

	// 0 = production default (5 minutes each).
	ConnectTimeout    time.Duration
	CommandTimeout    time.Duration
	SubmissionTimeout time.Duration

	Log *log.Logger // nil = discard
}

func verifYesNo(b bool) string {
	if b {
		return "yes"
	}
	return "no"
}

// VerifNewTarget builds an initialised remote target.
func VerifNewTarget(o VerifTargetOpts) (*Target, error) {
	if o.Name == "" {
		o.Name = "remote"
	}
	if o.Hostname == "" {
		o.Hostname = "mx.example.com"
	}
	mod, err := New("target.remote", o.Name, nil, nil)
	if err != nil {
		return nil, err
	}
	rt := mod.(*Target)
	rt.Log = log.Logger{Name: "remote", Out: log.NopOutput{}}
	if o.Log != nil {
		rt.Log = *o.Log
	}

	nodes := []config.Node{{Name: "hostname", Args: []string{o.Hostname}}}
	if o.RequireTLSOverride != nil {
		nodes = append(nodes, config.Node{Name: "requiretls_override", Args: []string{verifYesNo(*o.RequireTLSOverride)}})
	}
	if o.RelaxedRequireTLS != nil {
		nodes = append(nodes, config.Node{Name: "relaxed_requiretls", Args: []string{verifYesNo(*o.RelaxedRequireTLS)}})
	}
	if o.ConnReuseLimit > 0 {
		nodes = append(nodes, config.Node{Name: "conn_reuse_limit", Args: []string{strconv.Itoa(o.ConnReuseLimit)}})
	}
	for _, d := range []struct {
		name string
		v    time.Duration
	}{{"connect_timeout", o.ConnectTimeout}, {"command_timeout", o.CommandTimeout}, {"submission_timeout", o.SubmissionTimeout}} {
		if d.v > 0 {
			nodes = append(nodes, config.Node{Name: d.name, Args: []string{d.v.String()}})
		}
	}
	if err := rt.Init(config.NewMap(nil, config.Node{Children: nodes})); err != nil {
		return nil, err
	}
	if o.ConnReuseLimit < 0 {
		rt.connReuseLimit = 0
	}

	// The fields testTarget assigns.
	rt.name = o.Name
	rt.hostname = o.Hostname
	rt.resolver = o.Resolver
	rt.dialer = o.Dialer
	rt.extResolver = o.ExtResolver
	switch {
	case o.NoTLS:
		rt.tlsConfig = nil
	case o.TLSConfig != nil:
		rt.tlsConfig = o.TLSConfig
	default:
		rt.tlsConfig = &tls.Config{}
	}
	rt.policies = o.Policies
	if o.Limits != nil {
		rt.limits = o.Limits
	} else {
		rt.limits = &limits.Group{}
	}
	if o.PoolConfig != nil {
		rt.pool.Close()
		rt.pool = pool.New(*o.PoolConfig)
	}
	return rt, nil
}

// VerifMTASTSPolicy mirrors testSTSPolicy: a RAM-cache mtasts policy whose
// policy fetch function is replaced by get. The cache updater goroutine is not
// started (Close copes with that).
func VerifMTASTSPolicy(get func(ctx context.Context, domain string) (*mtasts.Policy, error), lg *log.Logger) (module.MXAuthPolicy, error) {
	m, err := NewMTASTSPolicy("mx_auth.mtasts", "verif", nil, nil)
	if err != nil {
		return nil, err
	}
	p := m.(*mtastsPolicy)
	err = p.Init(config.NewMap(nil, config.Node{
		Children: []config.Node{{Name: "cache", Args: []string{"ram"}}},
	}))
	if err != nil {
		return nil, err
	}
	p.mtastsGet = get
	p.log = log.Logger{Name: "remote/mtasts", Out: log.NopOutput{}}
	if lg != nil {
		p.log = *lg
	}
	return p, nil
}

// VerifDANEPolicy mirrors testDANEPolicy.
func VerifDANEPolicy(extR *dns.ExtResolver, lg *log.Logger) (module.MXAuthPolicy, error) {
	m, err := NewDANEPolicy("mx_auth.dane", "verif", nil, nil)
	if err != nil {
		return nil, err
	}
	p := m.(*danePolicy)
	if err := p.Init(config.NewMap(nil, config.Node{Children: nil})); err != nil {
		return nil, err
	}
	p.extResolver = extR
	p.log = log.Logger{Name: "remote/dane", Out: log.NopOutput{}}
	if lg != nil {
		p.log = *lg
	}
	return p, nil
}

// VerifDNSSECPolicy returns the dnssec policy (exported API only).
func VerifDNSSECPolicy() (module.MXAuthPolicy, error) {
	m, err := NewDNSSECPolicy("mx_auth.dnssec", "verif", nil, nil)
	if err != nil {
		return nil, err
	}
	if err := m.Init(config.NewMap(nil, config.Node{Children: nil})); err != nil {
		return nil, err
	}
	return m.(module.MXAuthPolicy), nil
}

// VerifLocalPolicy mirrors the `&localPolicy{minTLSLevel: ..., minMXLevel: ...}`
// literals of the pinned tests.
func VerifLocalPolicy(minTLS module.TLSLevel, minMX module.MXLevel) module.MXAuthPolicy {
	return &localPolicy{minTLSLevel: minTLS, minMXLevel: minMX}
}

// VerifVerifyDANE is verifyDANE (TestVerifyDANE calls it the same way).
func VerifVerifyDANE(recs []dns.TLSA, state tls.ConnectionState) (overridePKIX bool, err error) {
	return verifyDANE(recs, state)
}

// VerifSetVerifyDANETime sets the verification time override TestVerifyDANE
// sets (zero = wall clock, the production behaviour).
func VerifSetVerifyDANETime(t time.Time) { verifyDANETime = t }

// VerifSetSMTPPort sets the package-level port the pinned tests set in
// TestMain (process-global; harnesses that map addresses in their dialer do
// not need it).
func VerifSetSMTPPort(p string) { smtpPort = p }
