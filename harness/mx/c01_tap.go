//go:build verif

package mx

import (
	"context"
	"sync"

	"github.com/emersion/go-message/textproto"
	"github.com/emersion/go-smtp"
	"github.com/foxcpp/maddy/framework/buffer"
	"github.com/foxcpp/maddy/framework/config"
	"github.com/foxcpp/maddy/framework/module"
)

// TapTarget is a pass-through module.DeliveryTarget: it forwards every call to
// Inner (a real target such as remote / target.smtp / target.lmtp) and logs
// call and return events of the same kinds ScriptTarget logs (start.call,
// start, addrcpt.call, addrcpt, body.call, body, bodyna.call, status, bodyna,
// commit.call, commit, abort.call, abort), so Summaries and the harness
// oracles work on both. Class is Classify(err) of what Inner returned.
//
// The delivery it returns implements module.PartialDelivery exactly when the
// inner delivery does, so the caller takes the same code path as without the tap.
type TapTarget struct {
	InstName string
	Log      *Log
	Inner    module.DeliveryTarget

	// BodyHook, when set, may substitute the body buffer handed to the inner
	// delivery's Body / BodyNonAtomic (environment-fault injection: a spool body
	// that cannot be opened or whose reader fails). nil = pass through.
	BodyHook func(msgID string, attempt int, body buffer.Buffer) buffer.Buffer

	mu       sync.Mutex
	attempts map[string]int
	starts   int
}

// Starts returns the number of Start calls seen so far.
func (t *TapTarget) Starts() int {
	t.mu.Lock()
	defer t.mu.Unlock()
	return t.starts
}

func NewTap(name string, log *Log, inner module.DeliveryTarget) *TapTarget {
	return &TapTarget{InstName: name, Log: log, Inner: inner, attempts: map[string]int{}}
}

func (t *TapTarget) Name() string           { return "verif_tap" }
func (t *TapTarget) InstanceName() string   { return t.InstName }
func (t *TapTarget) Init(*config.Map) error { return nil }

func (t *TapTarget) Start(ctx context.Context, msgMeta *module.MsgMetadata, mailFrom string) (module.Delivery, error) {
	t.mu.Lock()
	t.attempts[msgMeta.ID]++
	t.starts++
	att := t.attempts[msgMeta.ID]
	t.mu.Unlock()
	id := t.Log.newDelivery()
	t.Log.Add(Event{Kind: "start.call", Target: t.InstName, Delivery: id, Attempt: att, MsgID: msgMeta.ID, From: mailFrom, Meta: SnapMeta(msgMeta)})
	d, err := t.Inner.Start(ctx, msgMeta, mailFrom)
	t.Log.Add(Event{Kind: "start", Target: t.InstName, Delivery: id, Attempt: att, MsgID: msgMeta.ID, From: mailFrom, Err: errStr(err), Class: Classify(err)})
	if err != nil {
		return nil, err
	}
	td := &tapDelivery{t: t, id: id, att: att, msgID: msgMeta.ID, inner: d}
	if pd, ok := d.(module.PartialDelivery); ok {
		return &tapPartialDelivery{tapDelivery: td, pd: pd}, nil
	}
	return td, nil
}

type tapDelivery struct {
	t     *TapTarget
	id    int
	att   int
	msgID string
	inner module.Delivery
}

func (d *tapDelivery) ev(kind, rcpt string, err error, withClass bool) {
	e := Event{Kind: kind, Target: d.t.InstName, Delivery: d.id, Attempt: d.att, MsgID: d.msgID, Rcpt: rcpt}
	if withClass {
		e.Err, e.Class = errStr(err), Classify(err)
	}
	d.t.Log.Add(e)
}

func (d *tapDelivery) AddRcpt(ctx context.Context, rcptTo string, opts smtp.RcptOptions) error {
	d.ev("addrcpt.call", rcptTo, nil, false)
	err := d.inner.AddRcpt(ctx, rcptTo, opts)
	d.ev("addrcpt", rcptTo, err, true)
	return err
}

func (d *tapDelivery) Body(ctx context.Context, header textproto.Header, body buffer.Buffer) error {
	d.ev("body.call", "", nil, false)
	if d.t.BodyHook != nil {
		body = d.t.BodyHook(d.msgID, d.att, body)
	}
	err := d.inner.Body(ctx, header, body)
	d.ev("body", "", err, true)
	return err
}

func (d *tapDelivery) Commit(ctx context.Context) error {
	d.ev("commit.call", "", nil, false)
	err := d.inner.Commit(ctx)
	d.ev("commit", "", err, true)
	return err
}

func (d *tapDelivery) Abort(ctx context.Context) error {
	d.ev("abort.call", "", nil, false)
	err := d.inner.Abort(ctx)
	d.ev("abort", "", err, true)
	return err
}

type tapPartialDelivery struct {
	*tapDelivery
	pd module.PartialDelivery
}

type tapCollector struct {
	d     *tapDelivery
	inner module.StatusCollector
}

func (c tapCollector) SetStatus(rcptTo string, err error) {
	c.d.ev("status", rcptTo, err, true)
	c.inner.SetStatus(rcptTo, err)
}

func (d *tapPartialDelivery) BodyNonAtomic(ctx context.Context, c module.StatusCollector, header textproto.Header, body buffer.Buffer) {
	d.ev("bodyna.call", "", nil, false)
	if d.t.BodyHook != nil {
		body = d.t.BodyHook(d.msgID, d.att, body)
	}
	d.pd.BodyNonAtomic(ctx, tapCollector{d: d.tapDelivery, inner: c}, header, body)
	d.ev("bodyna", "", nil, true)
}
