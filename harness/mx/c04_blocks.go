//go:build verif

package mx

import (
	"fmt"

	"github.com/foxcpp/maddy/framework/config"
	"github.com/foxcpp/maddy/framework/module"
)

// RegisterBlocks parses configuration text consisting of top-level named blocks
// (`modifiers name { }`, `checks name { }`, `table.chain name { }`, `msgpipeline name { }`, ...)
// and registers each of them the way maddy.go (RegisterModules) does for the blocks of maddy.conf:
// the instance is created by the module's factory and put into the process-global registry together
// with its configuration; it is initialised lazily by module.GetInstance when configuration text
// first references it as &name. Instance names must be unique per case. Returns the names.
func RegisterBlocks(text string, globals map[string]interface{}) ([]string, error) {
	nodes, err := ParseConfig(text)
	if err != nil {
		return nil, fmt.Errorf("parse: %w", err)
	}
	if globals == nil {
		globals = map[string]interface{}{}
	}
	regMu.Lock()
	defer regMu.Unlock()
	var names []string
	for _, block := range nodes {
		if len(block.Args) == 0 {
			return names, fmt.Errorf("top-level block %s without a name", block.Name)
		}
		instName := block.Args[0]
		factory := module.Get(block.Name)
		if factory == nil {
			return names, fmt.Errorf("unknown module %s", block.Name)
		}
		if module.HasInstance(instName) {
			return names, fmt.Errorf("config block named %s already exists", instName)
		}
		inst, err := factory(block.Name, instName, block.Args[1:], nil)
		if err != nil {
			return names, err
		}
		if inst.InstanceName() != instName {
			return names, fmt.Errorf("module %s registers its block %s under the name %q", block.Name, instName, inst.InstanceName())
		}
		module.RegisterInstance(inst, config.NewMap(globals, block))
		names = append(names, instName)
	}
	return names, nil
}
