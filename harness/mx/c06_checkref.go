//go:build verif

package mx

import (
	"fmt"
	"sync"

	"github.com/foxcpp/maddy/framework/module"
)

// A `check { ... }` block cannot reference a registered instance with the
// &name syntax (the block's children are directive names). CheckRef makes a
// scripted check referable from configuration text as an inline module:
//
//	check {
//	    verif_check_ref <name>
//	}
//
// The factory registered under "check.verif_check_ref" returns the very
// ScriptCheck object that was announced with CheckRef(name), so the same
// object can be referenced from several blocks.

var (
	checkRefOnce sync.Once
	checkRefMu   sync.Mutex
	checkRefs    = map[string]module.Module{}
)

// CheckRef announces a scripted check (any module.Module implementing
// module.Check) and returns the directive line that references it inside a
// `check { }` block.
func CheckRef(c module.Module) string {
	checkRefOnce.Do(func() {
		module.Register("check.verif_check_ref", func(_, _ string, _, inlineArgs []string) (module.Module, error) {
			if len(inlineArgs) != 1 {
				return nil, fmt.Errorf("verif_check_ref: exactly one argument expected")
			}
			checkRefMu.Lock()
			defer checkRefMu.Unlock()
			m, ok := checkRefs[inlineArgs[0]]
			if !ok {
				return nil, fmt.Errorf("verif_check_ref: unknown scripted check %q", inlineArgs[0])
			}
			return m, nil
		})
	})
	checkRefMu.Lock()
	checkRefs[c.InstanceName()] = c
	checkRefMu.Unlock()
	return "verif_check_ref " + c.InstanceName()
}

// CheckUnref forgets a scripted check announced with CheckRef.
func CheckUnref(c module.Module) {
	checkRefMu.Lock()
	delete(checkRefs, c.InstanceName())
	checkRefMu.Unlock()
}
