//go:build verif

package mx

// Independent parser for failure reports (RFC 3462 / 3464 / 6533) used by the
// C18 and C16 monitors. It uses only the Go standard library (net/mail,
// mime, mime/multipart, net/textproto) and nothing of go-message, which is
// what maddy generates the reports with.

import (
	"bufio"
	"bytes"
	"fmt"
	"io"
	"mime"
	"mime/multipart"
	"net/mail"
	"net/textproto"
	"sort"
	"strconv"
	"strings"
)

// ReportPart is one MIME part of a report.
type ReportPart struct {
	Header    textproto.MIMEHeader
	MediaType string
	Params    map[string]string
	Body      []byte
}

// ReportRcpt is one per-recipient group of the delivery-status part.
type ReportRcpt struct {
	Fields   textproto.MIMEHeader
	AddrType string // rfc822 | utf8 (lower-cased)
	Addr     string
	Action   string
	Status   [3]int
	StatusOK bool
	// Diagnostic-Code: "<type>; <code> <a.b.c> <text>"
	HasDiag  bool
	DiagType string
	DiagCode int
	DiagEnh  [3]int
	DiagText string
	DiagOK   bool // type smtp and code + enhanced code parsed
}

// Report is a parsed failure report. Problems lists structural defects by
// cause class (no data), empty when the report is well-formed.
type Report struct {
	Header     mail.Header
	MediaType  string
	Params     map[string]string
	Parts      []ReportPart
	PerMsg     textproto.MIMEHeader
	Rcpts      []ReportRcpt
	OrigHeader []byte // body of the third part
	Problems   []string

	// Facts about octets outside of ASCII (not Problems: whether they are
	// allowed depends on the SMTPUTF8 flag of the delivery, which the caller
	// knows). Lower-cased field names, in order of first appearance, each once.
	// Header8bit: fields of the top-level header; PartHeader8bit: fields of
	// the MIME headers of the parts ("part<N>/<field>"); Status8bit: fields
	// of any group of the delivery-status part. A line that belongs to no
	// field is named "(no-field)".
	Header8bit     []string
	PartHeader8bit []string
	Status8bit     []string
}

// Fields8bit returns the lower-cased names of the header fields of raw (one
// or more header blocks, blank lines are skipped) that contain an octet
// outside of ASCII in their name or (folded) body.
func Fields8bit(raw []byte) []string {
	var out []string
	seen := map[string]bool{}
	cur := "(no-field)"
	for _, l := range strings.Split(strings.ReplaceAll(string(raw), "\r\n", "\n"), "\n") {
		if strings.Trim(l, "\r") == "" {
			cur = "(no-field)"
			continue
		}
		if l[0] != ' ' && l[0] != '\t' {
			if i := strings.IndexByte(l, ':'); i >= 0 {
				cur = strings.ToLower(strings.TrimSpace(l[:i]))
			} else {
				cur = "(no-field)"
			}
		}
		for i := 0; i < len(l); i++ {
			if l[i] >= 0x80 {
				if !seen[cur] {
					seen[cur] = true
					out = append(out, cur)
				}
				break
			}
		}
	}
	return out
}

func (r *Report) problem(format string, a ...interface{}) {
	r.Problems = append(r.Problems, fmt.Sprintf(format, a...))
}

// ParseEnhanced parses "a.b.c".
func ParseEnhanced(s string) ([3]int, bool) {
	var out [3]int
	parts := strings.Split(strings.TrimSpace(s), ".")
	if len(parts) != 3 {
		return out, false
	}
	for i, p := range parts {
		if p == "" || len(p) > 3 {
			return out, false
		}
		n, err := strconv.Atoi(p)
		if err != nil || n < 0 {
			return out, false
		}
		out[i] = n
	}
	return out, true
}

func splitTyped(v string) (typ, rest string, ok bool) {
	i := strings.IndexByte(v, ';')
	if i < 0 {
		return "", v, false
	}
	return strings.ToLower(strings.TrimSpace(v[:i])), strings.TrimSpace(v[i+1:]), true
}

// ParseReport parses header+body of a message handed to the bounce target.
// It never fails: everything that is wrong ends up in Problems.
func ParseReport(header, body []byte) *Report {
	r := &Report{}
	r.Header8bit = Fields8bit(header)
	raw := append(append([]byte(nil), header...), body...)
	msg, err := mail.ReadMessage(bytes.NewReader(raw))
	if err != nil {
		r.problem("message-unparsable")
		return r
	}
	r.Header = msg.Header
	mt, params, err := mime.ParseMediaType(msg.Header.Get("Content-Type"))
	if err != nil {
		r.problem("content-type-unparsable")
		return r
	}
	r.MediaType, r.Params = mt, params
	if mt != "multipart/report" {
		r.problem("not-multipart-report")
	}
	if !strings.EqualFold(params["report-type"], "delivery-status") {
		r.problem("report-type-not-delivery-status")
	}
	if params["boundary"] == "" {
		r.problem("no-boundary")
		return r
	}
	if v := msg.Header.Get("Mime-Version"); strings.TrimSpace(v) != "1.0" {
		r.problem("mime-version-missing")
	}
	mr := multipart.NewReader(msg.Body, params["boundary"])
	for {
		// NextRawPart: no transparent quoted-printable decoding, headers kept as they are.
		p, err := mr.NextRawPart()
		if err == io.EOF {
			break
		}
		if err != nil {
			r.problem("multipart-broken")
			break
		}
		b, err := io.ReadAll(p)
		if err != nil {
			r.problem("multipart-part-unreadable")
			break
		}
		rp := ReportPart{Header: p.Header, Body: b}
		if ct := p.Header.Get("Content-Type"); ct != "" {
			pmt, pp, err := mime.ParseMediaType(ct)
			if err != nil {
				r.problem("part-content-type-unparsable")
			}
			rp.MediaType, rp.Params = pmt, pp
		} else {
			rp.MediaType = "text/plain"
		}
		r.Parts = append(r.Parts, rp)
		for name, vals := range p.Header {
			for _, v := range vals {
				if !isASCII(name) || !isASCII(v) {
					r.PartHeader8bit = append(r.PartHeader8bit, fmt.Sprintf("part%d/%s", len(r.Parts), strings.ToLower(name)))
					break
				}
			}
		}
		if len(r.Parts) > 16 {
			r.problem("too-many-parts")
			break
		}
	}
	sort.Strings(r.PartHeader8bit)
	if len(r.Parts) != 3 {
		r.problem("part-count-not-3")
	}
	if len(r.Parts) >= 1 && !strings.HasPrefix(r.Parts[0].MediaType, "text/") {
		r.problem("first-part-not-text")
	}
	if len(r.Parts) >= 2 {
		switch r.Parts[1].MediaType {
		case "message/delivery-status", "message/global-delivery-status":
			r.Status8bit = Fields8bit(r.Parts[1].Body)
			r.parseStatus(r.Parts[1].Body)
		default:
			r.problem("second-part-not-delivery-status")
		}
	}
	if len(r.Parts) >= 3 {
		switch r.Parts[2].MediaType {
		case "message/rfc822-headers", "text/rfc822-headers", "message/global-headers", "message/rfc822", "message/global":
			r.OrigHeader = r.Parts[2].Body
		default:
			r.problem("third-part-not-headers")
		}
	}
	return r
}

func isASCII(s string) bool {
	for i := 0; i < len(s); i++ {
		if s[i] >= 0x80 {
			return false
		}
	}
	return true
}

func (r *Report) parseStatus(b []byte) {
	tr := textproto.NewReader(bufio.NewReader(bytes.NewReader(b)))
	first := true
	for {
		h, err := tr.ReadMIMEHeader()
		if len(h) == 0 {
			if err == nil {
				// empty group (two consecutive blank lines)
				r.problem("status-empty-group")
				continue
			}
			if err != io.EOF {
				r.problem("status-group-unparsable")
			}
			break
		}
		if err != nil && err != io.EOF {
			r.problem("status-group-unparsable")
		}
		if first {
			first = false
			r.PerMsg = h
			if h.Get("Reporting-Mta") == "" {
				r.problem("no-reporting-mta")
			}
			if h.Get("Final-Recipient") != "" {
				r.problem("per-message-group-missing")
			}
		} else {
			r.Rcpts = append(r.Rcpts, parseRcptGroup(r, h))
		}
		if err == io.EOF {
			break
		}
	}
	if first {
		r.problem("status-part-empty")
	}
	if len(r.Rcpts) == 0 {
		r.problem("no-recipient-groups")
	}
}

func parseRcptGroup(r *Report, h textproto.MIMEHeader) ReportRcpt {
	g := ReportRcpt{Fields: h}
	if n := len(h.Values("Final-Recipient")); n != 1 {
		r.problem("final-recipient-count-not-1")
	}
	typ, addr, ok := splitTyped(h.Get("Final-Recipient"))
	if !ok || addr == "" {
		r.problem("final-recipient-untyped")
	}
	g.AddrType, g.Addr = typ, addr
	g.Action = strings.ToLower(strings.TrimSpace(h.Get("Action")))
	switch g.Action {
	case "failed", "delayed", "delivered", "relayed", "expanded":
	default:
		r.problem("action-invalid")
	}
	if n := len(h.Values("Status")); n != 1 {
		r.problem("status-count-not-1")
	}
	// RFC 3464: status-code may be followed by a comment.
	st := strings.TrimSpace(h.Get("Status"))
	if i := strings.IndexAny(st, " \t("); i >= 0 {
		st = st[:i]
	}
	g.Status, g.StatusOK = ParseEnhanced(st)
	if !g.StatusOK {
		r.problem("status-unparsable")
	}
	if dv := h.Values("Diagnostic-Code"); len(dv) > 0 {
		g.HasDiag = true
		if len(dv) > 1 {
			r.problem("diagnostic-code-repeated")
		}
		typ, rest, ok := splitTyped(dv[0])
		if !ok {
			r.problem("diagnostic-code-untyped")
		}
		g.DiagType = typ
		if typ == "smtp" {
			f := strings.Fields(rest)
			if len(f) >= 2 {
				code, err := strconv.Atoi(f[0])
				enh, eok := ParseEnhanced(f[1])
				if err == nil && eok && len(f[0]) == 3 {
					g.DiagCode, g.DiagEnh, g.DiagOK = code, enh, true
					g.DiagText = strings.Join(f[2:], " ")
				}
			}
			if !g.DiagOK {
				g.DiagText = rest
			}
		} else {
			g.DiagText = rest
		}
	}
	return g
}

// HeaderField is one unfolded header field.
type HeaderField struct {
	Name  string // as written
	Value string // unfolded, white space runs collapsed, trimmed
}

// UnfoldHeader splits raw header bytes into fields, in order, independent of
// line-ending style and folding. The terminating empty line (if any) ends the
// scan. Lines that are neither a field start nor a continuation are returned
// as fields with an empty name.
func UnfoldHeader(raw []byte) []HeaderField {
	var out []HeaderField
	lines := strings.Split(strings.ReplaceAll(string(raw), "\r\n", "\n"), "\n")
	for _, l := range lines {
		if l == "" {
			break
		}
		if (l[0] == ' ' || l[0] == '\t') && len(out) > 0 {
			out[len(out)-1].Value += " " + l
			continue
		}
		i := strings.IndexByte(l, ':')
		if i < 0 {
			out = append(out, HeaderField{Value: l})
			continue
		}
		out = append(out, HeaderField{Name: l[:i], Value: l[i+1:]})
	}
	for i := range out {
		out[i].Name = strings.TrimSpace(out[i].Name)
		out[i].Value = strings.Join(strings.Fields(out[i].Value), " ")
	}
	return out
}
