//go:build verif

// Package mx holds the maddy-facing monitors shared by the harnesses:
// an event log, a typestate-checking scripted DeliveryTarget, scripted checks,
// modifiers and tables, and helpers that build pipelines and endpoints from
// configuration text parsed by the real parser.
package mx

import (
	"fmt"
	"sync"
)

// Event is one observation at a module boundary. Seq is a total order
// consistent with real time at that boundary (events are appended under one
// mutex: call events before invoking, return events after the reply).
type Event struct {
	Seq      int               `json:"seq"`
	Kind     string            `json:"kind"` // start addrcpt body bodyna status commit abort typestate check.* mod.* ...
	Target   string            `json:"target,omitempty"`
	Delivery int               `json:"delivery,omitempty"` // unique id of the delivery object (per Log)
	Attempt  int               `json:"attempt,omitempty"`  // n-th Start for this MsgID on this target (1-based)
	MsgID    string            `json:"msg_id,omitempty"`
	From     string            `json:"from,omitempty"`
	Rcpt     string            `json:"rcpt,omitempty"`
	Err      string            `json:"err,omitempty"`   // "" = ok
	Class    string            `json:"class,omitempty"` // ok temp perm unclassified
	Info     map[string]string `json:"info,omitempty"`
	Header   []byte            `json:"-"`
	Body     []byte            `json:"-"`
	Meta     *MetaSnap         `json:"meta,omitempty"`
}

func (e Event) String() string {
	s := fmt.Sprintf("#%d %s", e.Seq, e.Kind)
	if e.Target != "" {
		s += " tgt=" + e.Target
	}
	if e.Delivery != 0 {
		s += fmt.Sprintf(" d=%d", e.Delivery)
	}
	if e.Attempt != 0 {
		s += fmt.Sprintf(" try=%d", e.Attempt)
	}
	if e.MsgID != "" {
		s += " msg=" + e.MsgID
	}
	if e.From != "" {
		s += " from=" + e.From
	}
	if e.Rcpt != "" {
		s += " rcpt=" + e.Rcpt
	}
	if e.Class != "" {
		s += " -> " + e.Class
	}
	if e.Err != "" {
		s += " (" + e.Err + ")"
	}
	for k, v := range e.Info {
		s += " " + k + "=" + v
	}
	return s
}

// MetaSnap is a copy of the MsgMetadata fields the properties talk about.
type MetaSnap struct {
	ID                 string            `json:"id"`
	OriginalFrom       string            `json:"original_from,omitempty"`
	Quarantine         bool              `json:"quarantine"`
	UTF8               bool              `json:"utf8"`
	RequireTLS         bool              `json:"require_tls"`
	TLSRequireOverride bool              `json:"tls_require_override"`
	OriginalRcpts      map[string]string `json:"original_rcpts,omitempty"`
	AuthUser           string            `json:"auth_user,omitempty"`
	AuthPassword       string            `json:"auth_password,omitempty"`
	HasConn            bool              `json:"has_conn"`
	Proto              string            `json:"proto,omitempty"`
	DontTraceSender    bool              `json:"dont_trace_sender,omitempty"`
	EnvID              string            `json:"envid,omitempty"`
	Size               int64             `json:"size,omitempty"`
}

// Log is an append-only, goroutine-safe event log.
type Log struct {
	mu     sync.Mutex
	events []Event
	nextD  int
}

func NewLog() *Log { return &Log{} }

func (l *Log) Add(e Event) int {
	l.mu.Lock()
	defer l.mu.Unlock()
	e.Seq = len(l.events) + 1
	l.events = append(l.events, e)
	return e.Seq
}

func (l *Log) newDelivery() int {
	l.mu.Lock()
	defer l.mu.Unlock()
	l.nextD++
	return l.nextD
}

// Events returns a copy of the log.
func (l *Log) Events() []Event {
	l.mu.Lock()
	defer l.mu.Unlock()
	return append([]Event(nil), l.events...)
}

func (l *Log) Len() int {
	l.mu.Lock()
	defer l.mu.Unlock()
	return len(l.events)
}

// Strings renders events (optionally the last n) for witnesses.
func (l *Log) Strings(last int) []string {
	ev := l.Events()
	if last > 0 && len(ev) > last {
		ev = ev[len(ev)-last:]
	}
	out := make([]string, len(ev))
	for i, e := range ev {
		out[i] = e.String()
	}
	return out
}

// Filter returns the events for which keep is true.
func (l *Log) Filter(keep func(Event) bool) []Event {
	var out []Event
	for _, e := range l.Events() {
		if keep(e) {
			out = append(out, e)
		}
	}
	return out
}
