//go:build verif

package mx

import (
	"context"
	"fmt"
	"strings"
	"sync"

	"github.com/emersion/go-message/textproto"
	"github.com/foxcpp/maddy/framework/buffer"
	parser "github.com/foxcpp/maddy/framework/cfgparser"
	"github.com/foxcpp/maddy/framework/config"
	"github.com/foxcpp/maddy/framework/module"
	"github.com/foxcpp/maddy/internal/msgpipeline"
)

// ---------------- scripted check ----------------

// CheckPoint identifies a check callback.
type CheckPoint struct {
	Check string
	State int    // id of the per-message state object
	MsgID string
	Stage string // early, init, conn, sender, rcpt, body, close
	Arg   string // sender / recipient
}

// ScriptCheck is a module.Check (and EarlyCheck) driven by a script; every call is logged.
type ScriptCheck struct {
	InstName string
	Log      *Log
	// Result returns the result for a stage (zero value = pass). May be nil.
	Result func(p CheckPoint) module.CheckResult
	// InitErr / EarlyErr script CheckStateForMsg / CheckConnection(early) failures.
	InitErr  func(p CheckPoint) error
	EarlyErr func(p CheckPoint) error
	// Hook is called inside each stage before the result is returned (rank barriers).
	Hook func(p CheckPoint)

	mu    sync.Mutex
	nextS int
	open  map[int]bool
}

func NewCheck(name string, log *Log) *ScriptCheck {
	return &ScriptCheck{InstName: name, Log: log, open: map[int]bool{}}
}

func (c *ScriptCheck) Name() string           { return "verif_check" }
func (c *ScriptCheck) InstanceName() string   { return c.InstName }
func (c *ScriptCheck) Init(*config.Map) error { return nil }

func (c *ScriptCheck) CheckConnection(ctx context.Context, state *module.ConnState) error {
	p := CheckPoint{Check: c.InstName, Stage: "early"}
	var err error
	if c.EarlyErr != nil {
		err = c.EarlyErr(p)
	}
	c.Log.Add(Event{Kind: "check.early", Target: c.InstName, Err: errStr(err), Class: Classify(err)})
	return err
}

func (c *ScriptCheck) CheckStateForMsg(ctx context.Context, msgMeta *module.MsgMetadata) (module.CheckState, error) {
	c.mu.Lock()
	c.nextS++
	id := c.nextS
	c.mu.Unlock()
	p := CheckPoint{Check: c.InstName, State: id, MsgID: msgMeta.ID, Stage: "init"}
	var err error
	if c.InitErr != nil {
		err = c.InitErr(p)
	}
	c.Log.Add(Event{Kind: "check.init", Target: c.InstName, Delivery: -id, MsgID: msgMeta.ID, Err: errStr(err), Class: Classify(err)})
	if err != nil {
		return nil, err
	}
	c.mu.Lock()
	c.open[id] = true
	c.mu.Unlock()
	return &scriptCheckState{c: c, id: id, meta: msgMeta}, nil
}

// OpenStates returns the ids of states not yet closed.
func (c *ScriptCheck) OpenStates() []int {
	c.mu.Lock()
	defer c.mu.Unlock()
	var out []int
	for id := range c.open {
		out = append(out, id)
	}
	return out
}

type scriptCheckState struct {
	c    *ScriptCheck
	id   int
	meta *module.MsgMetadata
}

func (s *scriptCheckState) run(stage, arg string) module.CheckResult {
	p := CheckPoint{Check: s.c.InstName, State: s.id, MsgID: s.meta.ID, Stage: stage, Arg: arg}
	s.c.Log.Add(Event{Kind: "check." + stage + ".call", Target: s.c.InstName, Delivery: -s.id, MsgID: s.meta.ID, Rcpt: arg})
	if s.c.Hook != nil {
		s.c.Hook(p)
	}
	var res module.CheckResult
	if s.c.Result != nil {
		res = s.c.Result(p)
	}
	info := map[string]string{}
	if res.Reject {
		info["reject"] = "1"
	}
	if res.Quarantine {
		info["quarantine"] = "1"
	}
	s.c.Log.Add(Event{Kind: "check." + stage, Target: s.c.InstName, Delivery: -s.id, MsgID: s.meta.ID, Rcpt: arg, Err: errStr(res.Reason), Info: info})
	return res
}

func (s *scriptCheckState) CheckConnection(ctx context.Context) module.CheckResult {
	return s.run("conn", "")
}
func (s *scriptCheckState) CheckSender(ctx context.Context, from string) module.CheckResult {
	return s.run("sender", from)
}
func (s *scriptCheckState) CheckRcpt(ctx context.Context, to string) module.CheckResult {
	return s.run("rcpt", to)
}
func (s *scriptCheckState) CheckBody(ctx context.Context, h textproto.Header, b buffer.Buffer) module.CheckResult {
	return s.run("body", "")
}
func (s *scriptCheckState) Close() error {
	s.c.mu.Lock()
	was := s.c.open[s.id]
	delete(s.c.open, s.id)
	s.c.mu.Unlock()
	e := Event{Kind: "check.close", Target: s.c.InstName, Delivery: -s.id, MsgID: s.meta.ID}
	if !was {
		e.Err = "closed twice"
	}
	s.c.Log.Add(e)
	return nil
}

// ---------------- scripted modifier ----------------

type ModPoint struct {
	Mod   string
	MsgID string
	Stage string // init, sender, rcpt, body, close
	Arg   string
}

// ScriptModifier is a module.Modifier whose rewrites and failures come from functions.
type ScriptModifier struct {
	InstName string
	Log      *Log
	Sender   func(p ModPoint) (string, error)   // nil = identity
	Rcpt     func(p ModPoint) ([]string, error) // nil = identity
	Body     func(p ModPoint, h *textproto.Header) error
	InitErr  func(p ModPoint) error

	mu   sync.Mutex
	open int
}

func NewModifier(name string, log *Log) *ScriptModifier {
	return &ScriptModifier{InstName: name, Log: log}
}

func (m *ScriptModifier) Name() string           { return "verif_modifier" }
func (m *ScriptModifier) InstanceName() string   { return m.InstName }
func (m *ScriptModifier) Init(*config.Map) error { return nil }

// OpenStates is the number of states not yet closed.
func (m *ScriptModifier) OpenStates() int {
	m.mu.Lock()
	defer m.mu.Unlock()
	return m.open
}

func (m *ScriptModifier) ModStateForMsg(ctx context.Context, msgMeta *module.MsgMetadata) (module.ModifierState, error) {
	p := ModPoint{Mod: m.InstName, MsgID: msgMeta.ID, Stage: "init"}
	var err error
	if m.InitErr != nil {
		err = m.InitErr(p)
	}
	m.Log.Add(Event{Kind: "mod.init", Target: m.InstName, MsgID: msgMeta.ID, Err: errStr(err), Class: Classify(err)})
	if err != nil {
		return nil, err
	}
	m.mu.Lock()
	m.open++
	m.mu.Unlock()
	return &scriptModState{m: m, meta: msgMeta}, nil
}

type scriptModState struct {
	m    *ScriptModifier
	meta *module.MsgMetadata
}

func (s *scriptModState) RewriteSender(ctx context.Context, from string) (string, error) {
	out, err := from, error(nil)
	if s.m.Sender != nil {
		out, err = s.m.Sender(ModPoint{Mod: s.m.InstName, MsgID: s.meta.ID, Stage: "sender", Arg: from})
	}
	s.m.Log.Add(Event{Kind: "mod.sender", Target: s.m.InstName, MsgID: s.meta.ID, From: from, Err: errStr(err), Class: Classify(err), Info: map[string]string{"to": out}})
	return out, err
}

func (s *scriptModState) RewriteRcpt(ctx context.Context, to string) ([]string, error) {
	out, err := []string{to}, error(nil)
	if s.m.Rcpt != nil {
		out, err = s.m.Rcpt(ModPoint{Mod: s.m.InstName, MsgID: s.meta.ID, Stage: "rcpt", Arg: to})
	}
	s.m.Log.Add(Event{Kind: "mod.rcpt", Target: s.m.InstName, MsgID: s.meta.ID, Rcpt: to, Err: errStr(err), Class: Classify(err), Info: map[string]string{"to": strings.Join(out, ",")}})
	return out, err
}

func (s *scriptModState) RewriteBody(ctx context.Context, h *textproto.Header, body buffer.Buffer) error {
	var err error
	if s.m.Body != nil {
		err = s.m.Body(ModPoint{Mod: s.m.InstName, MsgID: s.meta.ID, Stage: "body"}, h)
	}
	s.m.Log.Add(Event{Kind: "mod.body", Target: s.m.InstName, MsgID: s.meta.ID, Err: errStr(err), Class: Classify(err)})
	return err
}

func (s *scriptModState) Close() error {
	s.m.mu.Lock()
	s.m.open--
	s.m.mu.Unlock()
	s.m.Log.Add(Event{Kind: "mod.close", Target: s.m.InstName, MsgID: s.meta.ID})
	return nil
}

// ---------------- in-memory table ----------------

// MemTable is a module.Table + MultiTable + MutableTable.
type MemTable struct {
	InstName string
	mu       sync.Mutex
	M        map[string][]string
	// Err, if set, is returned by lookups of that key.
	Err map[string]error
}

func NewTable(name string) *MemTable {
	return &MemTable{InstName: name, M: map[string][]string{}, Err: map[string]error{}}
}

func (t *MemTable) Name() string           { return "verif_table" }
func (t *MemTable) InstanceName() string   { return t.InstName }
func (t *MemTable) Init(*config.Map) error { return nil }

func (t *MemTable) Lookup(ctx context.Context, k string) (string, bool, error) {
	t.mu.Lock()
	defer t.mu.Unlock()
	if err := t.Err[k]; err != nil {
		return "", false, err
	}
	v, ok := t.M[k]
	if !ok || len(v) == 0 {
		return "", false, nil
	}
	return v[0], true, nil
}

func (t *MemTable) LookupMulti(ctx context.Context, k string) ([]string, error) {
	t.mu.Lock()
	defer t.mu.Unlock()
	if err := t.Err[k]; err != nil {
		return nil, err
	}
	return append([]string(nil), t.M[k]...), nil
}

func (t *MemTable) Keys() ([]string, error) {
	t.mu.Lock()
	defer t.mu.Unlock()
	var ks []string
	for k := range t.M {
		ks = append(ks, k)
	}
	return ks, nil
}

func (t *MemTable) RemoveKey(k string) error {
	t.mu.Lock()
	defer t.mu.Unlock()
	delete(t.M, k)
	return nil
}

func (t *MemTable) SetKey(k, v string) error {
	t.mu.Lock()
	defer t.mu.Unlock()
	t.M[k] = []string{v}
	return nil
}

// ---------------- registry / config helpers ----------------

var regMu sync.Mutex

// RegisterInstance puts a scripted module instance into maddy's process-global
// registry so that configuration text can reference it as &name. Instance names
// must be unique per case (include the case id). The registry is not
// goroutine-safe in maddy; this helper serialises harness-side registration.
func RegisterInstance(m module.Module) {
	regMu.Lock()
	defer regMu.Unlock()
	module.RegisterInstance(m, nil)
	module.Initialized[m.InstanceName()] = true
}

// ParseConfig parses configuration text with the real parser.
func ParseConfig(text string) ([]config.Node, error) {
	return parser.Read(strings.NewReader(text), "verif-literal")
}

// BuildPipeline parses pipeline directives and builds a MsgPipeline.
func BuildPipeline(text string, globals map[string]interface{}) (*msgpipeline.MsgPipeline, error) {
	nodes, err := ParseConfig(text)
	if err != nil {
		return nil, fmt.Errorf("parse: %w", err)
	}
	if globals == nil {
		globals = map[string]interface{}{}
	}
	regMu.Lock()
	defer regMu.Unlock()
	return msgpipeline.New(globals, nodes)
}

// InitModule parses "name args { block }" style text consisting of the *children* of a
// block and calls mod.Init with them (the way maddy initialises a config block).
func InitModule(mod module.Module, blockBody string, globals map[string]interface{}) error {
	nodes, err := ParseConfig(blockBody)
	if err != nil {
		return fmt.Errorf("parse: %w", err)
	}
	if globals == nil {
		globals = map[string]interface{}{}
	}
	regMu.Lock()
	defer regMu.Unlock()
	return mod.Init(config.NewMap(globals, config.Node{Children: nodes}))
}
