//go:build verif

package mx

import (
	"bytes"
	"context"
	"errors"
	"fmt"
	"io"
	"strings"
	"sync"

	"github.com/emersion/go-message/textproto"
	"github.com/emersion/go-smtp"
	"github.com/foxcpp/maddy/framework/buffer"
	"github.com/foxcpp/maddy/framework/config"
	"github.com/foxcpp/maddy/framework/exterrors"
	"github.com/foxcpp/maddy/framework/module"
)

// Outcome classes of an injected result.
const (
	OK           = "ok"
	Temp         = "temp"
	Perm         = "perm"
	Unclassified = "unclassified"
)

// Stages of a delivery at which a result can be scripted.
const (
	StStart  = "start"
	StRcpt   = "rcpt"
	StBody   = "body"   // whole-body result (Body, or start of BodyNonAtomic: applies to all recipients)
	StStatus = "status" // per-recipient status inside BodyNonAtomic
	StCommit = "commit"
	StAbort  = "abort"
)

// Point identifies the place a scripted result is asked for.
type Point struct {
	Target  string
	MsgID   string
	Attempt int // n-th Start of this message (AttemptKey(MsgID)) on this target, 1-based
	Stage   string
	Rcpt    string
	RcptIdx int // index among AddRcpt calls of this delivery
}

// Classify maps an error to its class the way the property statements do.
func Classify(err error) string {
	if err == nil {
		return OK
	}
	var t exterrors.TemporaryErr
	if errors.As(err, &t) {
		if t.Temporary() {
			return Temp
		}
		return Perm
	}
	return Unclassified
}

// MakeErr builds an error of the given class. variant selects among the ways
// maddy code can express that class (SMTPError with coherent codes,
// WithTemporary wrapper, bare error).
func MakeErr(class string, variant int, text string) error {
	switch class {
	case OK, "":
		return nil
	case Temp:
		switch variant % 3 {
		case 0:
			return &exterrors.SMTPError{Code: 451, EnhancedCode: exterrors.EnhancedCode{4, 3, 0}, Message: "verif temp " + text, TargetName: "verif"}
		case 1:
			return &exterrors.SMTPError{Code: 421, EnhancedCode: exterrors.EnhancedCode{4, 4, 2}, Message: "verif temp " + text}
		default:
			return exterrors.WithTemporary(errors.New("verif temp wrapped "+text), true)
		}
	case Perm:
		switch variant % 3 {
		case 0:
			return &exterrors.SMTPError{Code: 550, EnhancedCode: exterrors.EnhancedCode{5, 1, 1}, Message: "verif perm " + text, TargetName: "verif"}
		case 1:
			return &exterrors.SMTPError{Code: 554, EnhancedCode: exterrors.EnhancedCode{5, 7, 1}, Message: "verif perm " + text}
		default:
			return exterrors.WithTemporary(errors.New("verif perm wrapped "+text), false)
		}
	default:
		return errors.New("verif unclassified " + text)
	}
}

// ScriptTarget is a module.DeliveryTarget whose results come from a script and
// which checks the Delivery typestate: Start -> AddRcpt* -> Body|BodyNonAtomic
// -> Commit|Abort. Every call is logged with its arguments and result. Protocol
// violations by the caller are logged as Kind "typestate" events.
type ScriptTarget struct {
	InstName string
	Log      *Log
	// Partial makes deliveries implement module.PartialDelivery.
	Partial bool
	// ExplicitOK makes a partial delivery report successes too (SetStatus(rcpt, nil)),
	// as target.remote and target.lmtp do; by default only failures are reported.
	ExplicitOK bool
	// Script returns the error to inject at a point (nil = ok). May be nil.
	Script func(p Point) error
	// Hook, if set, is called inside every stage after the call event was
	// logged and before the result is returned (barriers, concurrency counting).
	Hook func(p Point)

	mu       sync.Mutex
	attempts map[string]int
	open     map[int]*ScriptDelivery
	all      []*ScriptDelivery
}

func NewTarget(name string, log *Log) *ScriptTarget {
	return &ScriptTarget{InstName: name, Log: log, attempts: map[string]int{}, open: map[int]*ScriptDelivery{}}
}

func (t *ScriptTarget) Name() string             { return "verif_target" }
func (t *ScriptTarget) InstanceName() string     { return t.InstName }
func (t *ScriptTarget) Init(*config.Map) error   { return nil }
func (t *ScriptTarget) script(p Point) error {
	if t.Hook != nil {
		t.Hook(p)
	}
	if t.Script == nil {
		return nil
	}
	return t.Script(p)
}

// SnapMeta copies the fields of interest.
func SnapMeta(m *module.MsgMetadata) *MetaSnap {
	if m == nil {
		return nil
	}
	s := &MetaSnap{
		ID: m.ID, OriginalFrom: m.OriginalFrom, Quarantine: m.Quarantine,
		UTF8: m.SMTPOpts.UTF8, RequireTLS: m.SMTPOpts.RequireTLS, TLSRequireOverride: m.TLSRequireOverride,
		DontTraceSender: m.DontTraceSender, EnvID: m.SMTPOpts.EnvelopeID, Size: m.SMTPOpts.Size,
	}
	if m.OriginalRcpts != nil {
		s.OriginalRcpts = map[string]string{}
		for k, v := range m.OriginalRcpts {
			s.OriginalRcpts[k] = v
		}
	}
	if m.Conn != nil {
		s.HasConn = true
		s.AuthUser = m.Conn.AuthUser
		s.AuthPassword = m.Conn.AuthPassword
		s.Proto = m.Conn.Proto
	}
	return s
}

// AttemptKey strips the "-<hex unix time>" suffix the queue appends to the
// message id of every attempt, so that attempts of one message share a key.
func AttemptKey(id string) string {
	k := strings.LastIndexByte(id, '-')
	if k <= 0 || k == len(id)-1 {
		return id
	}
	for _, c := range id[k+1:] {
		if !(c >= '0' && c <= '9' || c >= 'a' && c <= 'f') {
			return id
		}
	}
	return id[:k]
}

func (t *ScriptTarget) Start(ctx context.Context, msgMeta *module.MsgMetadata, mailFrom string) (module.Delivery, error) {
	t.mu.Lock()
	t.attempts[AttemptKey(msgMeta.ID)]++
	att := t.attempts[AttemptKey(msgMeta.ID)]
	t.mu.Unlock()
	id := t.Log.newDelivery()
	p := Point{Target: t.InstName, MsgID: msgMeta.ID, Attempt: att, Stage: StStart}
	t.Log.Add(Event{Kind: "start.call", Target: t.InstName, Delivery: id, Attempt: att, MsgID: msgMeta.ID, From: mailFrom, Meta: SnapMeta(msgMeta)})
	err := t.script(p)
	t.Log.Add(Event{Kind: "start", Target: t.InstName, Delivery: id, Attempt: att, MsgID: msgMeta.ID, From: mailFrom, Err: errStr(err), Class: Classify(err), Meta: SnapMeta(msgMeta)})
	if err != nil {
		return nil, err
	}
	d := &ScriptDelivery{t: t, ID: id, MsgID: msgMeta.ID, Attempt: att, From: mailFrom, meta: msgMeta, state: "started"}
	t.mu.Lock()
	t.open[id] = d
	t.all = append(t.all, d)
	t.mu.Unlock()
	if t.Partial {
		return &partialDelivery{d}, nil
	}
	return d, nil
}

func errStr(err error) string {
	if err == nil {
		return ""
	}
	return err.Error()
}

// ScriptDelivery is the typestate-checked delivery object.
type ScriptDelivery struct {
	t       *ScriptTarget
	ID      int
	MsgID   string
	Attempt int
	From    string
	meta    *module.MsgMetadata

	mu       sync.Mutex
	state    string // started, body, closed
	closedBy string
	Rcpts    []string // accepted (AddRcpt returned nil), as given
	nRcpt    int
	bodySeen bool
}

func (d *ScriptDelivery) typestate(what string) {
	d.t.Log.Add(Event{Kind: "typestate", Target: d.t.InstName, Delivery: d.ID, Attempt: d.Attempt, MsgID: d.MsgID, Err: what})
}

func (d *ScriptDelivery) point(stage, rcpt string, idx int) Point {
	return Point{Target: d.t.InstName, MsgID: d.MsgID, Attempt: d.Attempt, Stage: stage, Rcpt: rcpt, RcptIdx: idx}
}

func (d *ScriptDelivery) AddRcpt(ctx context.Context, rcptTo string, opts smtp.RcptOptions) error {
	d.mu.Lock()
	if d.state == "closed" {
		d.typestate("AddRcpt after " + d.closedBy)
	} else if d.bodySeen {
		d.typestate("AddRcpt after Body")
	}
	idx := d.nRcpt
	d.nRcpt++
	d.mu.Unlock()
	d.t.Log.Add(Event{Kind: "addrcpt.call", Target: d.t.InstName, Delivery: d.ID, Attempt: d.Attempt, MsgID: d.MsgID, Rcpt: rcptTo})
	err := d.t.script(d.point(StRcpt, rcptTo, idx))
	d.mu.Lock()
	if err == nil {
		d.Rcpts = append(d.Rcpts, rcptTo)
	}
	d.mu.Unlock()
	info := map[string]string{}
	if opts.OriginalRecipient != "" {
		info["orcpt"] = opts.OriginalRecipient
	}
	d.t.Log.Add(Event{Kind: "addrcpt", Target: d.t.InstName, Delivery: d.ID, Attempt: d.Attempt, MsgID: d.MsgID, Rcpt: rcptTo, Err: errStr(err), Class: Classify(err), Info: info})
	return err
}

func headerBytes(h textproto.Header) []byte {
	var b bytes.Buffer
	textproto.WriteHeader(&b, h)
	return b.Bytes()
}

func bodyBytes(b buffer.Buffer) ([]byte, error) {
	if b == nil {
		return nil, errors.New("nil buffer")
	}
	r, err := b.Open()
	if err != nil {
		return nil, err
	}
	defer r.Close()
	return io.ReadAll(r)
}

func (d *ScriptDelivery) enterBody(kind string) {
	d.mu.Lock()
	defer d.mu.Unlock()
	if d.state == "closed" {
		d.typestate(kind + " after " + d.closedBy)
	} else if d.bodySeen {
		d.typestate(kind + " called twice")
	}
	d.bodySeen = true
}

func (d *ScriptDelivery) Body(ctx context.Context, header textproto.Header, body buffer.Buffer) error {
	d.enterBody("Body")
	hb := headerBytes(header)
	bb, rerr := bodyBytes(body)
	d.t.Log.Add(Event{Kind: "body.call", Target: d.t.InstName, Delivery: d.ID, Attempt: d.Attempt, MsgID: d.MsgID})
	err := d.t.script(d.point(StBody, "", -1))
	info := map[string]string{}
	if rerr != nil {
		info["read_err"] = rerr.Error()
	}
	d.t.Log.Add(Event{Kind: "body", Target: d.t.InstName, Delivery: d.ID, Attempt: d.Attempt, MsgID: d.MsgID, Err: errStr(err), Class: Classify(err), Header: hb, Body: bb, Meta: SnapMeta(d.meta), Info: info})
	return err
}

type partialDelivery struct{ *ScriptDelivery }

func (d *partialDelivery) BodyNonAtomic(ctx context.Context, c module.StatusCollector, header textproto.Header, body buffer.Buffer) {
	d.enterBody("BodyNonAtomic")
	hb := headerBytes(header)
	bb, rerr := bodyBytes(body)
	info := map[string]string{}
	if rerr != nil {
		info["read_err"] = rerr.Error()
	}
	d.t.Log.Add(Event{Kind: "bodyna.call", Target: d.t.InstName, Delivery: d.ID, Attempt: d.Attempt, MsgID: d.MsgID})
	whole := d.t.script(d.point(StBody, "", -1))
	d.mu.Lock()
	rcpts := append([]string(nil), d.Rcpts...)
	d.mu.Unlock()
	for i, r := range rcpts {
		err := whole
		if err == nil {
			err = d.t.script(d.point(StStatus, r, i))
		}
		d.t.Log.Add(Event{Kind: "status", Target: d.t.InstName, Delivery: d.ID, Attempt: d.Attempt, MsgID: d.MsgID, Rcpt: r, Err: errStr(err), Class: Classify(err)})
		if err != nil || d.t.ExplicitOK {
			c.SetStatus(r, err)
		}
	}
	d.t.Log.Add(Event{Kind: "bodyna", Target: d.t.InstName, Delivery: d.ID, Attempt: d.Attempt, MsgID: d.MsgID, Err: errStr(whole), Class: Classify(whole), Header: hb, Body: bb, Meta: SnapMeta(d.meta), Info: info})
}

func (d *ScriptDelivery) closeWith(kind string) {
	d.mu.Lock()
	if d.state == "closed" {
		d.typestate(kind + " after " + d.closedBy + " (closed twice)")
	} else if kind == "Commit" && !d.bodySeen {
		d.typestate("Commit without Body")
	}
	d.state = "closed"
	if d.closedBy == "" {
		d.closedBy = kind
	}
	d.mu.Unlock()
	d.t.mu.Lock()
	delete(d.t.open, d.ID)
	d.t.mu.Unlock()
}

func (d *ScriptDelivery) Commit(ctx context.Context) error {
	d.t.Log.Add(Event{Kind: "commit.call", Target: d.t.InstName, Delivery: d.ID, Attempt: d.Attempt, MsgID: d.MsgID})
	d.closeWith("Commit")
	err := d.t.script(d.point(StCommit, "", -1))
	d.t.Log.Add(Event{Kind: "commit", Target: d.t.InstName, Delivery: d.ID, Attempt: d.Attempt, MsgID: d.MsgID, Err: errStr(err), Class: Classify(err)})
	return err
}

func (d *ScriptDelivery) Abort(ctx context.Context) error {
	d.t.Log.Add(Event{Kind: "abort.call", Target: d.t.InstName, Delivery: d.ID, Attempt: d.Attempt, MsgID: d.MsgID})
	d.closeWith("Abort")
	err := d.t.script(d.point(StAbort, "", -1))
	d.t.Log.Add(Event{Kind: "abort", Target: d.t.InstName, Delivery: d.ID, Attempt: d.Attempt, MsgID: d.MsgID, Err: errStr(err), Class: Classify(err)})
	return err
}

// Open lists the deliveries that were started and not yet committed/aborted.
func (t *ScriptTarget) Open() []*ScriptDelivery {
	t.mu.Lock()
	defer t.mu.Unlock()
	var out []*ScriptDelivery
	for _, d := range t.open {
		out = append(out, d)
	}
	return out
}

// Deliveries lists every delivery object ever started on this target.
func (t *ScriptTarget) Deliveries() []*ScriptDelivery {
	t.mu.Lock()
	defer t.mu.Unlock()
	return append([]*ScriptDelivery(nil), t.all...)
}

func (d *ScriptDelivery) String() string {
	return fmt.Sprintf("delivery %d on %s (msg %s, attempt %d)", d.ID, d.t.InstName, d.MsgID, d.Attempt)
}

// ClosedBy is "", "Commit" or "Abort".
func (d *ScriptDelivery) ClosedBy() string {
	d.mu.Lock()
	defer d.mu.Unlock()
	return d.closedBy
}

// ---- analysis helpers over a log ----

// DeliverySummary condenses the events of one delivery object.
type DeliverySummary struct {
	Delivery   int
	Target     string
	MsgID      string
	Attempt    int
	From       string
	Accepted   []string          // AddRcpt ok, in order
	Refused    map[string]string // rcpt -> class
	BodyKind   string            // "", body, bodyna
	BodyClass  string            // class of the whole-body result
	Status     map[string]string // per-recipient class (bodyna); missing = ok
	Commit     string            // "", ok, temp, perm, unclassified
	Abort      string
	Typestate  []string
	Header     []byte
	Body       []byte
	BodyMeta   *MetaSnap
	StartMeta  *MetaSnap
	StartClass string
}

// Summaries groups a log by delivery object, in order of Start.
func Summaries(events []Event) []*DeliverySummary {
	idx := map[int]*DeliverySummary{}
	var order []*DeliverySummary
	get := func(e Event) *DeliverySummary {
		s := idx[e.Delivery]
		if s == nil {
			s = &DeliverySummary{Delivery: e.Delivery, Target: e.Target, MsgID: e.MsgID, Attempt: e.Attempt, Refused: map[string]string{}, Status: map[string]string{}}
			idx[e.Delivery] = s
			order = append(order, s)
		}
		return s
	}
	for _, e := range events {
		if e.Delivery == 0 {
			continue
		}
		switch e.Kind {
		case "start":
			s := get(e)
			s.From = e.From
			s.StartClass = e.Class
			s.StartMeta = e.Meta
		case "addrcpt":
			s := get(e)
			if e.Class == OK {
				s.Accepted = append(s.Accepted, e.Rcpt)
			} else {
				s.Refused[e.Rcpt] = e.Class
			}
		case "body", "bodyna":
			s := get(e)
			s.BodyKind = e.Kind
			s.BodyClass = e.Class
			s.Header = e.Header
			s.Body = e.Body
			s.BodyMeta = e.Meta
		case "status":
			s := get(e)
			if e.Class != OK {
				s.Status[e.Rcpt] = e.Class
			}
		case "commit":
			get(e).Commit = e.Class
		case "abort":
			get(e).Abort = e.Class
		case "typestate":
			s := get(e)
			s.Typestate = append(s.Typestate, e.Err)
		}
	}
	return order
}

// DeliveredTo reports whether this delivery object committed the message for rcpt:
// accepted, whole-body ok, per-recipient status ok, Commit ok.
func (s *DeliverySummary) DeliveredTo(rcpt string) bool {
	if s.Commit != OK || s.BodyClass != OK {
		return false
	}
	acc := false
	for _, r := range s.Accepted {
		if r == rcpt {
			acc = true
		}
	}
	if !acc {
		return false
	}
	_, bad := s.Status[rcpt]
	return !bad
}
