// Package certs builds throw-away X.509 hierarchies for tests: root CAs,
// intermediates, leaves (optionally expired / not-yet-valid / CA-flagged) and
// self-signed certificates. All keys are ECDSA P-256.
//
// Every constructor panics on failure: these are test helpers and the only
// possible failures are entropy exhaustion or programmer error.
//
//	root  := certs.NewCA("verif root")
//	inter := root.Intermediate("verif intermediate")
//	leaf  := inter.Leaf(certs.LeafOpts{DNSNames: []string{"mx.example.org"}})
//	srvCfg := &tls.Config{Certificates: []tls.Certificate{leaf.TLSCertificate(inter)}}
//	cliCfg := &tls.Config{RootCAs: root.Pool(), ServerName: "mx.example.org"}
package certs

import (
	"crypto/ecdsa"
	"crypto/elliptic"
	"crypto/rand"
	"crypto/tls"
	"crypto/x509"
	"crypto/x509/pkix"
	"encoding/pem"
	"math/big"
	"net"
	"time"
)

// CA is a certificate authority (root or intermediate) able to sign further
// certificates.
type CA struct {
	Cert *x509.Certificate
	DER  []byte
	Key  *ecdsa.PrivateKey

	// Parent is the issuing CA; nil for a root.
	Parent *CA
}

// LeafOpts describes an end-entity (or, with IsCA, a CA-flagged) certificate.
type LeafOpts struct {
	// CN is the subject common name. Defaults to DNSNames[0], then "leaf".
	CN string
	// DNSNames / IPAddresses populate the subjectAltName extension.
	DNSNames    []string
	IPAddresses []net.IP
	// NotBefore / NotAfter default to now-1h and now+24h. If only NotAfter is
	// given and it lies before the default NotBefore (an expired leaf),
	// NotBefore becomes NotAfter-24h.
	NotBefore, NotAfter time.Time
	// IsCA sets basicConstraints CA:TRUE and keyCertSign on the certificate.
	IsCA bool
}

// Leaf is a certificate together with its private key.
type Leaf struct {
	Cert *x509.Certificate
	DER  []byte
	Key  *ecdsa.PrivateKey
}

func must(err error) {
	if err != nil {
		panic("certs: " + err.Error())
	}
}

func newKey() *ecdsa.PrivateKey {
	k, err := ecdsa.GenerateKey(elliptic.P256(), rand.Reader)
	must(err)
	return k
}

func newSerial() *big.Int {
	n, err := rand.Int(rand.Reader, new(big.Int).Lsh(big.NewInt(1), 120))
	must(err)
	return n.Add(n, big.NewInt(1))
}

func sign(tmpl, parent *x509.Certificate, pub *ecdsa.PublicKey, signer *ecdsa.PrivateKey) (*x509.Certificate, []byte) {
	der, err := x509.CreateCertificate(rand.Reader, tmpl, parent, pub, signer)
	must(err)
	c, err := x509.ParseCertificate(der)
	must(err)
	return c, der
}

func caTemplate(cn string) *x509.Certificate {
	now := time.Now()
	return &x509.Certificate{
		SerialNumber:          newSerial(),
		Subject:               pkix.Name{CommonName: cn, Organization: []string{"verifkit"}},
		NotBefore:             now.Add(-24 * time.Hour),
		NotAfter:              now.Add(30 * 24 * time.Hour),
		KeyUsage:              x509.KeyUsageCertSign | x509.KeyUsageCRLSign | x509.KeyUsageDigitalSignature,
		BasicConstraintsValid: true,
		IsCA:                  true,
	}
}

// NewCA creates a self-signed root CA with the given common name.
func NewCA(cn string) *CA {
	key := newKey()
	tmpl := caTemplate(cn)
	cert, der := sign(tmpl, tmpl, &key.PublicKey, key)
	return &CA{Cert: cert, DER: der, Key: key}
}

// Intermediate creates a CA certificate signed by ca.
func (ca *CA) Intermediate(cn string) *CA {
	key := newKey()
	cert, der := sign(caTemplate(cn), ca.Cert, &key.PublicKey, ca.Key)
	return &CA{Cert: cert, DER: der, Key: key, Parent: ca}
}

func leafTemplate(opts LeafOpts) *x509.Certificate {
	now := time.Now()
	nb, na := opts.NotBefore, opts.NotAfter
	if nb.IsZero() {
		nb = now.Add(-time.Hour)
		if !na.IsZero() && !na.After(nb) {
			nb = na.Add(-24 * time.Hour)
		}
	}
	if na.IsZero() {
		na = now.Add(24 * time.Hour)
		if !na.After(nb) {
			na = nb.Add(24 * time.Hour)
		}
	}
	cn := opts.CN
	if cn == "" && len(opts.DNSNames) > 0 {
		cn = opts.DNSNames[0]
	}
	if cn == "" {
		cn = "leaf"
	}
	t := &x509.Certificate{
		SerialNumber:          newSerial(),
		Subject:               pkix.Name{CommonName: cn},
		NotBefore:             nb,
		NotAfter:              na,
		KeyUsage:              x509.KeyUsageDigitalSignature,
		ExtKeyUsage:           []x509.ExtKeyUsage{x509.ExtKeyUsageServerAuth, x509.ExtKeyUsageClientAuth},
		BasicConstraintsValid: true,
		DNSNames:              append([]string(nil), opts.DNSNames...),
		IPAddresses:           append([]net.IP(nil), opts.IPAddresses...),
	}
	if opts.IsCA {
		t.IsCA = true
		t.KeyUsage |= x509.KeyUsageCertSign | x509.KeyUsageCRLSign
	}
	return t
}

// Leaf creates a certificate signed by ca.
func (ca *CA) Leaf(opts LeafOpts) *Leaf {
	key := newKey()
	cert, der := sign(leafTemplate(opts), ca.Cert, &key.PublicKey, ca.Key)
	return &Leaf{Cert: cert, DER: der, Key: key}
}

// SelfSigned creates a certificate signed by its own key.
func SelfSigned(opts LeafOpts) *Leaf {
	key := newKey()
	tmpl := leafTemplate(opts)
	cert, der := sign(tmpl, tmpl, &key.PublicKey, key)
	return &Leaf{Cert: cert, DER: der, Key: key}
}

// Pool returns a fresh CertPool containing only this CA's certificate.
func (ca *CA) Pool() *x509.CertPool {
	p := x509.NewCertPool()
	p.AddCert(ca.Cert)
	return p
}

// PEM returns the CA certificate PEM-encoded.
func (ca *CA) PEM() []byte {
	return pem.EncodeToMemory(&pem.Block{Type: "CERTIFICATE", Bytes: ca.DER})
}

// Pool returns a fresh CertPool containing only this certificate (useful for
// trusting a self-signed leaf).
func (l *Leaf) Pool() *x509.CertPool {
	p := x509.NewCertPool()
	p.AddCert(l.Cert)
	return p
}

// TLSCertificate returns a tls.Certificate made of the leaf followed by the
// given CA certificates, in the order given (normally: issuing intermediate
// first, root - if sent at all - last).
func (l *Leaf) TLSCertificate(chain ...*CA) tls.Certificate {
	c := tls.Certificate{
		Certificate: [][]byte{l.DER},
		PrivateKey:  l.Key,
		Leaf:        l.Cert,
	}
	for _, ca := range chain {
		c.Certificate = append(c.Certificate, ca.DER)
	}
	return c
}

// CertPEM returns the leaf followed by the given CA certificates as a PEM
// bundle (the layout of a "fullchain" file).
func (l *Leaf) CertPEM(chain ...*CA) []byte {
	out := pem.EncodeToMemory(&pem.Block{Type: "CERTIFICATE", Bytes: l.DER})
	for _, ca := range chain {
		out = append(out, ca.PEM()...)
	}
	return out
}

// KeyPEM returns the private key as a PKCS#8 "PRIVATE KEY" PEM block.
func (l *Leaf) KeyPEM() []byte {
	der, err := x509.MarshalPKCS8PrivateKey(l.Key)
	must(err)
	return pem.EncodeToMemory(&pem.Block{Type: "PRIVATE KEY", Bytes: der})
}

// SPKI returns the DER-encoded SubjectPublicKeyInfo of cert (the input of
// DANE "selector 1" TLSA records and of HPKP-style pins). The slice is a copy.
func SPKI(cert *x509.Certificate) []byte {
	return append([]byte(nil), cert.RawSubjectPublicKeyInfo...)
}
