package certs

import (
	"bytes"
	"crypto/tls"
	"crypto/x509"
	"encoding/pem"
	"errors"
	"net"
	"testing"
	"time"
)

func verify(t *testing.T, leaf *x509.Certificate, roots *x509.CertPool, inters []*CA, name string) error {
	t.Helper()
	ip := x509.NewCertPool()
	for _, c := range inters {
		ip.AddCert(c.Cert)
	}
	_, err := leaf.Verify(x509.VerifyOptions{Roots: roots, Intermediates: ip, DNSName: name})
	return err
}

func TestChain(t *testing.T) {
	root := NewCA("root")
	other := NewCA("other root")
	inter := root.Intermediate("inter")
	if inter.Parent != root || root.Parent != nil {
		t.Fatal("Parent links wrong")
	}
	leaf := inter.Leaf(LeafOpts{DNSNames: []string{"mx.example.org", "alt.example.org"}})

	if err := verify(t, leaf.Cert, root.Pool(), []*CA{inter}, "mx.example.org"); err != nil {
		t.Fatalf("valid chain rejected: %v", err)
	}
	if err := verify(t, leaf.Cert, root.Pool(), []*CA{inter}, "alt.example.org"); err != nil {
		t.Fatalf("second SAN rejected: %v", err)
	}
	if err := verify(t, leaf.Cert, root.Pool(), nil, "mx.example.org"); err == nil {
		t.Fatal("chain without intermediate accepted")
	}
	if err := verify(t, leaf.Cert, other.Pool(), []*CA{inter}, "mx.example.org"); err == nil {
		t.Fatal("chain accepted under unrelated root")
	}
	var hErr x509.HostnameError
	if err := verify(t, leaf.Cert, root.Pool(), []*CA{inter}, "evil.example.org"); !errors.As(err, &hErr) {
		t.Fatalf("want HostnameError, got %v", err)
	}
	if leaf.Cert.IsCA {
		t.Fatal("plain leaf is a CA")
	}
	if !inter.Cert.IsCA || !root.Cert.IsCA {
		t.Fatal("CAs not flagged CA")
	}
	if leaf.Cert.Subject.CommonName != "mx.example.org" {
		t.Fatalf("CN default: %q", leaf.Cert.Subject.CommonName)
	}
}

func TestExpiredAndFuture(t *testing.T) {
	root := NewCA("root")
	exp := root.Leaf(LeafOpts{DNSNames: []string{"a.test"}, NotAfter: time.Now().Add(-48 * time.Hour)})
	if !exp.Cert.NotBefore.Before(exp.Cert.NotAfter) {
		t.Fatalf("NotBefore %v !< NotAfter %v", exp.Cert.NotBefore, exp.Cert.NotAfter)
	}
	err := verify(t, exp.Cert, root.Pool(), nil, "a.test")
	var inv x509.CertificateInvalidError
	if !errors.As(err, &inv) || inv.Reason != x509.Expired {
		t.Fatalf("want Expired, got %v", err)
	}

	fut := root.Leaf(LeafOpts{DNSNames: []string{"a.test"}, NotBefore: time.Now().Add(48 * time.Hour)})
	if !fut.Cert.NotBefore.Before(fut.Cert.NotAfter) {
		t.Fatalf("future leaf: NotBefore %v !< NotAfter %v", fut.Cert.NotBefore, fut.Cert.NotAfter)
	}
	err = verify(t, fut.Cert, root.Pool(), nil, "a.test")
	if !errors.As(err, &inv) || inv.Reason != x509.Expired {
		t.Fatalf("want Expired (not yet valid), got %v", err)
	}
}

func TestLeafIsCA(t *testing.T) {
	root := NewCA("root")
	sub := root.Leaf(LeafOpts{CN: "sub", IsCA: true})
	if !sub.Cert.IsCA || sub.Cert.KeyUsage&x509.KeyUsageCertSign == 0 {
		t.Fatal("IsCA leaf lacks CA bits")
	}
}

func TestSelfSignedAndSPKI(t *testing.T) {
	ss := SelfSigned(LeafOpts{DNSNames: []string{"self.test"}, IPAddresses: []net.IP{net.IPv4(127, 0, 0, 1)}})
	if err := ss.Cert.CheckSignature(ss.Cert.SignatureAlgorithm, ss.Cert.RawTBSCertificate, ss.Cert.Signature); err != nil {
		t.Fatalf("self signature invalid: %v", err)
	}
	if _, err := ss.Cert.Verify(x509.VerifyOptions{Roots: ss.Pool(), DNSName: "self.test"}); err != nil {
		t.Fatalf("self-signed not verifiable against own pool: %v", err)
	}
	if _, err := ss.Cert.Verify(x509.VerifyOptions{Roots: NewCA("x").Pool(), DNSName: "self.test"}); err == nil {
		t.Fatal("self-signed verified against unrelated root")
	}

	spki := SPKI(ss.Cert)
	want, err := x509.MarshalPKIXPublicKey(&ss.Key.PublicKey)
	if err != nil {
		t.Fatal(err)
	}
	if !bytes.Equal(spki, want) {
		t.Fatal("SPKI != MarshalPKIXPublicKey(key)")
	}
	spki[0] ^= 0xff
	if bytes.Equal(spki, ss.Cert.RawSubjectPublicKeyInfo) {
		t.Fatal("SPKI returned an alias of the certificate's bytes")
	}

	a, b := SelfSigned(LeafOpts{CN: "a"}), SelfSigned(LeafOpts{CN: "a"})
	if bytes.Equal(SPKI(a.Cert), SPKI(b.Cert)) || a.Cert.SerialNumber.Cmp(b.Cert.SerialNumber) == 0 {
		t.Fatal("keys/serials not unique")
	}
}

func TestPEM(t *testing.T) {
	root := NewCA("root")
	inter := root.Intermediate("inter")
	leaf := inter.Leaf(LeafOpts{DNSNames: []string{"pem.test"}})
	pair, err := tls.X509KeyPair(leaf.CertPEM(inter), leaf.KeyPEM())
	if err != nil {
		t.Fatalf("X509KeyPair: %v", err)
	}
	if len(pair.Certificate) != 2 || !bytes.Equal(pair.Certificate[0], leaf.DER) || !bytes.Equal(pair.Certificate[1], inter.DER) {
		t.Fatal("PEM bundle order wrong")
	}
	blk, rest := pem.Decode(root.PEM())
	if blk == nil || len(bytes.TrimSpace(rest)) != 0 || !bytes.Equal(blk.Bytes, root.DER) {
		t.Fatal("CA.PEM round trip failed")
	}
}

// TestTLSHandshake checks that TLSCertificate(chain...) presents the chain in
// the given order and that a client trusting only the root accepts it.
func TestTLSHandshake(t *testing.T) {
	root := NewCA("root")
	inter := root.Intermediate("inter")
	leaf := inter.Leaf(LeafOpts{DNSNames: []string{"mx.tls.test"}})
	tc := leaf.TLSCertificate(inter, root)
	if len(tc.Certificate) != 3 || !bytes.Equal(tc.Certificate[1], inter.DER) || !bytes.Equal(tc.Certificate[2], root.DER) {
		t.Fatal("TLSCertificate chain order wrong")
	}

	run := func(srvCert tls.Certificate, cli *tls.Config) (tls.ConnectionState, error) {
		ln, err := net.Listen("tcp", "127.0.0.1:0")
		if err != nil {
			t.Fatal(err)
		}
		defer ln.Close()
		done := make(chan struct{})
		go func() {
			defer close(done)
			a, err := ln.Accept()
			if err != nil {
				return
			}
			defer a.Close()
			srv := tls.Server(a, &tls.Config{Certificates: []tls.Certificate{srvCert}})
			a.SetDeadline(time.Now().Add(10 * time.Second))
			if srv.Handshake() == nil {
				// Keep the connection open until the client is done.
				srv.Read(make([]byte, 1))
			}
		}()
		b, err := net.Dial("tcp", ln.Addr().String())
		if err != nil {
			t.Fatal(err)
		}
		b.SetDeadline(time.Now().Add(10 * time.Second))
		c := tls.Client(b, cli)
		err = c.Handshake()
		st := c.ConnectionState()
		b.Close()
		<-done
		return st, err
	}

	st, err := run(leaf.TLSCertificate(inter), &tls.Config{RootCAs: root.Pool(), ServerName: "mx.tls.test"})
	if err != nil {
		t.Fatalf("handshake with full chain: %v", err)
	}
	if len(st.PeerCertificates) != 2 || !bytes.Equal(st.PeerCertificates[0].Raw, leaf.DER) {
		t.Fatalf("peer certs: %d", len(st.PeerCertificates))
	}
	if _, err := run(leaf.TLSCertificate(), &tls.Config{RootCAs: root.Pool(), ServerName: "mx.tls.test"}); err == nil {
		t.Fatal("handshake without intermediate succeeded")
	}
	if _, err := run(leaf.TLSCertificate(inter), &tls.Config{RootCAs: root.Pool(), ServerName: "wrong.test"}); err == nil {
		t.Fatal("handshake with wrong name succeeded")
	}
	exp := inter.Leaf(LeafOpts{DNSNames: []string{"mx.tls.test"}, NotAfter: time.Now().Add(-time.Minute)})
	_, err = run(exp.TLSCertificate(inter), &tls.Config{RootCAs: root.Pool(), ServerName: "mx.tls.test"})
	var cve *tls.CertificateVerificationError
	if !errors.As(err, &cve) {
		t.Fatalf("expired leaf: want CertificateVerificationError, got %v", err)
	}
}
