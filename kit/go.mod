module verifkit

go 1.23
