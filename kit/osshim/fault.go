package osshim

import (
	"os"
	"sync/atomic"
)

// Fault injection: I/O ERROR RETURNS (as opposed to the crash-stop of
// SetStopAt / StopNow, after which the process is considered dead).
//
// A FaultFunc installed with SetFaultFunc is consulted by EVERY mutating
// operation of the shim (create, openfile with write flags, write, writeat,
// sync, close of a writable file, rename, remove, removeall, truncate,
// mkdir*, writefile, link, symlink, chmod, chown, chtimes) right after the
// recorder's "before" callback of that operation and before anything of it
// is performed. When it returns a non-nil *Fault the operation is NOT
// performed and fails with Fault.Err wrapped the way package os wraps it
// (*PathError, for rename / link / symlink *LinkError), with two exceptions
// that mirror the system calls:
//
//   - write / writeat: the first Fault.Partial bytes (clamped to the length
//     of the buffer) ARE written, then (Partial, error) is returned: a short
//     write that ran into ENOSPC / EDQUOT / EIO. No "mid" callback is
//     delivered for such a write.
//   - close: the descriptor is released all the same (as close(2) does when
//     it reports EIO), the error is returned.
//
// A failed sync leaves the tracked synced length as it was. The operation
// keeps its index (Op.Index counts it) and a stop point set on it is honoured
// as for an operation without "mid" phase.
//
// The default is nil: no behaviour change whatsoever. While a FaultFunc is
// installed the shim is armed (operations are serialised by the operation
// lock even without a recorder), so the function never runs concurrently
// with itself or with a recorded operation; like a Recorder callback it may
// call Snapshot*, OpIndex, ... but no mutating shim function.
type Fault struct {
	Err     error
	Partial int
}

// READ-SIDE opens (Open, OpenFile without write flags, ReadFile) are also
// shown to the FaultFunc, as Op{Kind: "open-read"} with Op.Index = index of
// the last mutating operation; they are not recorded, not counted and no stop
// points. A FaultFunc that only wants mutating calls ignores that kind.
//
// FaultFunc decides, per mutating operation (op.Phase is always "before"),
// whether it fails. nil = perform the operation normally.
type FaultFunc func(op Op) *Fault

var faultFn atomic.Pointer[FaultFunc]

// SetFaultFunc installs fn (nil: no fault injection). It does not touch the
// recorder, the operation index, a stop point or the tracking.
func SetFaultFunc(fn FaultFunc) {
	st.mu.Lock()
	defer st.mu.Unlock()
	if fn == nil {
		faultFn.Store(nil)
	} else {
		faultFn.Store(&fn)
	}
	rearmLocked()
}

// injected consults the fault function for the operation that was just
// assigned idx. Caller holds opMu.
func injected(idx int, kind, p1, p2 string, data []byte) *Fault {
	fp := faultFn.Load()
	if fp == nil {
		return nil
	}
	f := (*fp)(Op{Index: idx, Kind: kind, Path: p1, Path2: p2, Data: cloneBytes(data), Phase: "before"})
	if f == nil || f.Err == nil {
		return nil
	}
	return f
}

// faultError wraps err like package os would for that kind of operation.
func faultError(kind, p1, p2 string, err error) error {
	switch kind {
	case "rename", "link", "symlink":
		return &os.LinkError{Op: kind, Old: p1, New: p2, Err: err}
	case "create", "openfile":
		return &os.PathError{Op: "open", Path: p1, Err: err}
	case "writefile":
		return &os.PathError{Op: "write", Path: p1, Err: err}
	case "writeat":
		return &os.PathError{Op: "write", Path: p1, Err: err}
	case "removeall":
		return &os.PathError{Op: "unlinkat", Path: p1, Err: err}
	case "mkdirall":
		return &os.PathError{Op: "mkdir", Path: p1, Err: err}
	}
	return &os.PathError{Op: kind, Path: p1, Err: err}
}
