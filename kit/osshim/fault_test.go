package osshim

import (
	"errors"
	"os"
	"path/filepath"
	"syscall"
	"testing"
)

func TestFaultDefaultNilNoChange(t *testing.T) {
	Reset()
	if armed.Load() {
		t.Fatal("armed without recorder, stop point or fault function")
	}
	dir := t.TempDir()
	f, err := Create(filepath.Join(dir, "a"))
	if err != nil {
		t.Fatal(err)
	}
	if _, err := f.Write([]byte("hello")); err != nil {
		t.Fatal(err)
	}
	if err := f.Sync(); err != nil {
		t.Fatal(err)
	}
	if err := f.Close(); err != nil {
		t.Fatal(err)
	}
	if OpIndex() != 0 {
		t.Fatalf("operations counted while unarmed: %d", OpIndex())
	}
}

func TestFaultEveryKind(t *testing.T) {
	Reset()
	defer Reset()
	dir := t.TempDir()
	fail := ""
	partial := 0
	var seen []string
	SetFaultFunc(func(op Op) *Fault {
		seen = append(seen, op.Kind)
		if op.Kind == fail {
			return &Fault{Err: syscall.ENOSPC, Partial: partial}
		}
		return nil
	})
	p := filepath.Join(dir, "a")

	fail = "create"
	if _, err := Create(p); !errors.Is(err, syscall.ENOSPC) {
		t.Fatalf("create: %v", err)
	} else if pe := new(os.PathError); !errors.As(err, &pe) || pe.Op != "open" {
		t.Fatalf("create error not wrapped like os: %#v", err)
	}
	if _, err := os.Stat(p); !os.IsNotExist(err) {
		t.Fatal("failed create was performed")
	}
	fail = ""
	f, err := Create(p)
	if err != nil {
		t.Fatal(err)
	}

	fail, partial = "write", 3
	n, err := f.Write([]byte("0123456789"))
	if n != 3 || !errors.Is(err, syscall.ENOSPC) {
		t.Fatalf("short write: n=%d err=%v", n, err)
	}
	if b, _ := os.ReadFile(p); string(b) != "012" {
		t.Fatalf("file after short write: %q", b)
	}
	partial = 0
	if n, err := f.WriteString("zz"); n != 0 || !errors.Is(err, syscall.ENOSPC) {
		t.Fatalf("failed write: n=%d err=%v", n, err)
	}
	fail = ""
	if _, err := f.Write([]byte("3456")); err != nil {
		t.Fatal(err)
	}

	fail = "sync"
	if err := f.Sync(); !errors.Is(err, syscall.ENOSPC) {
		t.Fatalf("sync: %v", err)
	}
	if n, ok := SyncedLen(p); !ok || n != 0 {
		t.Fatalf("failed sync moved the synced length: %d %v", n, ok)
	}
	snap, err := SnapshotDropUnsynced(dir)
	if err != nil || len(snap["a"]) != 0 {
		t.Fatalf("drop-unsynced after failed sync: %q %v", snap["a"], err)
	}
	fail = ""
	if err := f.Sync(); err != nil {
		t.Fatal(err)
	}
	if n, _ := SyncedLen(p); n != 7 {
		t.Fatalf("synced length %d", n)
	}

	fail = "truncate"
	if err := f.Truncate(1); !errors.Is(err, syscall.ENOSPC) {
		t.Fatalf("truncate: %v", err)
	}
	if err := Truncate(p, 1); !errors.Is(err, syscall.ENOSPC) {
		t.Fatalf("truncate: %v", err)
	}

	fail = "rename"
	q := filepath.Join(dir, "b")
	err = Rename(p, q)
	if le := new(os.LinkError); !errors.As(err, &le) || !errors.Is(err, syscall.ENOSPC) || le.Op != "rename" {
		t.Fatalf("rename: %#v", err)
	}
	if _, err := os.Stat(q); !os.IsNotExist(err) {
		t.Fatal("failed rename was performed")
	}
	if f.Path() != p {
		t.Fatalf("path moved by a failed rename: %s", f.Path())
	}

	fail = "remove"
	if err := Remove(p); !errors.Is(err, syscall.ENOSPC) {
		t.Fatalf("remove: %v", err)
	}
	if _, err := os.Stat(p); err != nil {
		t.Fatal("failed remove was performed")
	}

	fail = "close"
	if err := f.Close(); !errors.Is(err, syscall.ENOSPC) {
		t.Fatalf("close: %v", err)
	}
	if _, err := f.OSFile().Write([]byte("x")); err == nil {
		t.Fatal("descriptor not released by a failed close")
	}

	fail = "openfile"
	if _, err := OpenFile(p, O_WRONLY|O_APPEND, 0o600); !errors.Is(err, syscall.ENOSPC) {
		t.Fatalf("openfile: %v", err)
	}
	// read-only opens are not mutating
	if g, err := OpenFile(p, O_RDONLY, 0); err != nil {
		t.Fatalf("read-only open consulted the fault function: %v", err)
	} else {
		g.Close()
	}

	// removal of the function: plain forwards again
	SetFaultFunc(nil)
	if armed.Load() {
		t.Fatal("still armed")
	}
	if err := Remove(p); err != nil {
		t.Fatal(err)
	}
	want := map[string]bool{"create": true, "write": true, "sync": true, "truncate": true, "rename": true, "remove": true, "close": true, "openfile": true}
	for _, k := range seen {
		delete(want, k)
	}
	if len(want) != 0 {
		t.Fatalf("kinds never offered to the fault function: %v", want)
	}
}

// A faulted operation is an operation: it is reported to the recorder first,
// keeps its index, and the fault function survives SetRecorder.
func TestFaultWithRecorder(t *testing.T) {
	Reset()
	defer Reset()
	dir := t.TempDir()
	var ops []Op
	SetRecorder(RecorderFunc(func(op Op) { ops = append(ops, op) }))
	SetFaultFunc(func(op Op) *Fault {
		if op.Kind == "sync" {
			return &Fault{Err: syscall.EIO}
		}
		return nil
	})
	f, err := Create(filepath.Join(dir, "a"))
	if err != nil {
		t.Fatal(err)
	}
	f.Write([]byte("abcd"))
	if err := f.Sync(); !errors.Is(err, syscall.EIO) {
		t.Fatalf("sync: %v", err)
	}
	f.Close()
	var kinds []string
	for _, o := range ops {
		kinds = append(kinds, o.Phase+":"+o.Kind)
	}
	got := filepath.ToSlash(filepath.Join(kinds...))
	if got != "before:create/before:write/mid:write/before:sync/before:close" {
		t.Fatalf("recorded: %s", got)
	}
	if OpIndex() != 4 {
		t.Fatalf("index %d", OpIndex())
	}
	SetRecorder(nil)
	if !armed.Load() {
		t.Fatal("SetRecorder(nil) disarmed the fault function")
	}
	g, _ := Create(filepath.Join(dir, "b"))
	if err := g.Sync(); !errors.Is(err, syscall.EIO) {
		t.Fatalf("sync after SetRecorder(nil): %v", err)
	}
	g.Close()
}
