package osshim

import (
	"io/fs"
	"os"
	"syscall"
	"time"
)

// File wraps *os.File. It deliberately does not implement io.ReaderFrom /
// io.WriterTo so that io.Copy into a File degrades to plain Write calls,
// each of which is a recorded operation.
type File struct {
	f *os.File
	// path is the absolute path used as tracker key. It is updated when the
	// file is renamed through the shim while open (guarded by st.mu).
	path        string
	writable    bool
	passthrough bool
}

func newWritable(f *os.File, p string) *File {
	sf := &File{f: f, path: p, writable: true}
	registerOpen(sf)
	return sf
}

// OSFile returns the underlying *os.File for APIs that insist on the concrete
// type. Writes done through it bypass recording and tracking.
func (f *File) OSFile() *os.File {
	if f == nil {
		return nil
	}
	return f.f
}

// Path returns the absolute path the tracker currently associates with f.
func (f *File) Path() string {
	if f == nil {
		return ""
	}
	return curPath(f)
}

func (f *File) recorded() bool { return !f.passthrough && armed.Load() }

// ---- non-mutating ------------------------------------------------------------

func (f *File) Name() string {
	if f == nil {
		return (*os.File)(nil).Name()
	}
	return f.f.Name()
}

func (f *File) Read(b []byte) (int, error) {
	if f == nil {
		return 0, os.ErrInvalid
	}
	return f.f.Read(b)
}

func (f *File) ReadAt(b []byte, off int64) (int, error) {
	if f == nil {
		return 0, os.ErrInvalid
	}
	return f.f.ReadAt(b, off)
}

func (f *File) Seek(offset int64, whence int) (int64, error) {
	if f == nil {
		return 0, os.ErrInvalid
	}
	return f.f.Seek(offset, whence)
}

func (f *File) Stat() (FileInfo, error) {
	if f == nil {
		return nil, os.ErrInvalid
	}
	return f.f.Stat()
}

func (f *File) Fd() uintptr {
	if f == nil {
		return ^uintptr(0)
	}
	return f.f.Fd()
}

func (f *File) ReadDir(n int) ([]DirEntry, error) {
	if f == nil {
		return nil, os.ErrInvalid
	}
	return f.f.ReadDir(n)
}

func (f *File) Readdir(n int) ([]FileInfo, error) {
	if f == nil {
		return nil, os.ErrInvalid
	}
	return f.f.Readdir(n)
}

func (f *File) Readdirnames(n int) ([]string, error) {
	if f == nil {
		return nil, os.ErrInvalid
	}
	return f.f.Readdirnames(n)
}

func (f *File) Chdir() error {
	if f == nil {
		return os.ErrInvalid
	}
	return f.f.Chdir()
}

func (f *File) SetDeadline(t time.Time) error {
	if f == nil {
		return os.ErrInvalid
	}
	return f.f.SetDeadline(t)
}

func (f *File) SetReadDeadline(t time.Time) error {
	if f == nil {
		return os.ErrInvalid
	}
	return f.f.SetReadDeadline(t)
}

func (f *File) SetWriteDeadline(t time.Time) error {
	if f == nil {
		return os.ErrInvalid
	}
	return f.f.SetWriteDeadline(t)
}

func (f *File) SyscallConn() (syscall.RawConn, error) {
	if f == nil {
		return nil, os.ErrInvalid
	}
	return f.f.SyscallConn()
}

// ---- mutating ------------------------------------------------------------------

// Write is recorded as Op{Kind: "write", Data: b}. When a recorder or stop
// point is active and len(b) >= 2, the first half len(b)/2 is written, the
// recorder is called with Phase "mid" (same Index, N = len(b)/2), then the
// second half is written.
func (f *File) Write(b []byte) (int, error) {
	if f == nil {
		return 0, os.ErrInvalid
	}
	if !f.recorded() {
		return f.f.Write(b)
	}
	return f.splitWrite("write", b, -1)
}

func (f *File) WriteString(s string) (int, error) {
	if f == nil {
		return 0, os.ErrInvalid
	}
	if !f.recorded() {
		return f.f.WriteString(s)
	}
	return f.splitWrite("write", []byte(s), -1)
}

// WriteAt is recorded as Op{Kind: "writeat"} and split like Write.
func (f *File) WriteAt(b []byte, off int64) (int, error) {
	if f == nil {
		return 0, os.ErrInvalid
	}
	if !f.recorded() {
		return f.f.WriteAt(b, off)
	}
	if off < 0 {
		return f.f.WriteAt(b, off) // let os produce the error
	}
	return f.splitWrite("writeat", b, off)
}

func (f *File) splitWrite(kind string, b []byte, off int64) (int, error) {
	opMu.Lock()
	defer opMu.Unlock()
	p := curPath(f)
	idx, ok := begin(kind, p, "", b)
	if !ok {
		return 0, ErrStopped
	}
	defer finish(idx)
	write := func(part []byte, at int64) (int, error) {
		if off < 0 {
			return f.f.Write(part)
		}
		return f.f.WriteAt(part, at)
	}
	if ft := injected(idx, kind, p, "", b); ft != nil {
		// injected I/O error: a short write of ft.Partial bytes, then the error
		k := ft.Partial
		if k < 0 {
			k = 0
		}
		if k > len(b) {
			k = len(b)
		}
		n := 0
		if k > 0 {
			var werr error
			if n, werr = write(b[:k], off); werr != nil {
				return n, werr
			}
		}
		return n, faultError(kind, p, "", ft.Err)
	}
	if len(b) < 2 {
		return write(b, off)
	}
	h := len(b) / 2
	n, err := write(b[:h], off)
	if err != nil {
		return n, err
	}
	if !mid(idx, kind, p, b, h) {
		return n, ErrStopped
	}
	n2, err := write(b[h:], off+int64(h))
	return n + n2, err
}

// Sync is recorded as Op{Kind: "sync"}; afterwards the synced length of the
// file's path is its current size.
func (f *File) Sync() error {
	if f == nil {
		return os.ErrInvalid
	}
	if f.passthrough {
		return f.f.Sync()
	}
	return mutate("sync", curPath(f), "", nil, func() error {
		err := f.f.Sync()
		if err == nil && f.writable {
			if st, serr := f.f.Stat(); serr == nil {
				trackSet(curPath(f), st.Size())
			}
		}
		return err
	})
}

// Close of a file opened for writing is recorded as Op{Kind: "close"}; Close
// of read-only files is a plain forward. After a crash-stop the descriptor
// is still released, but ErrStopped is returned for writable files.
func (f *File) Close() error {
	if f == nil {
		return os.ErrInvalid
	}
	if !f.writable {
		return f.f.Close()
	}
	defer unregisterOpen(f)
	if !f.recorded() {
		return f.f.Close()
	}
	opMu.Lock()
	defer opMu.Unlock()
	idx, ok := begin("close", curPath(f), "", nil)
	if !ok {
		f.f.Close()
		return ErrStopped
	}
	if ft := injected(idx, "close", curPath(f), "", nil); ft != nil {
		// like close(2) reporting EIO: the descriptor is released all the same
		f.f.Close()
		finish(idx)
		return faultError("close", curPath(f), "", ft.Err)
	}
	err := f.f.Close()
	finish(idx)
	return err
}

func (f *File) Truncate(size int64) error {
	if f == nil {
		return os.ErrInvalid
	}
	if f.passthrough {
		return f.f.Truncate(size)
	}
	return mutate("truncate", curPath(f), "", nil, func() error {
		err := f.f.Truncate(size)
		if err == nil {
			trackClamp(curPath(f), size)
		}
		return err
	})
}

func (f *File) Chmod(mode fs.FileMode) error {
	if f == nil {
		return os.ErrInvalid
	}
	if f.passthrough {
		return f.f.Chmod(mode)
	}
	return mutate("chmod", curPath(f), "", nil, func() error { return f.f.Chmod(mode) })
}

func (f *File) Chown(uid, gid int) error {
	if f == nil {
		return os.ErrInvalid
	}
	if f.passthrough {
		return f.f.Chown(uid, gid)
	}
	return mutate("chown", curPath(f), "", nil, func() error { return f.f.Chown(uid, gid) })
}
