// Package osshim is a drop-in replacement for the commonly used subset of
// package os. The instrumentation tool rewrites `import "os"` into
// `import os "verifkit/osshim"` (kind "osshim"), after which every mutating
// file-system call of the instrumented file passes through a global recorder
// (see record.go) that supports crash-point enumeration: per-operation
// callbacks, "synced length" tracking, snapshots and crash-stop.
//
// Types that must stay identical to the os ones are aliases; File is a shim
// struct wrapping *os.File (use (*File).OSFile to get at the real one).
package osshim

import (
	"io/fs"
	"os"
	"path/filepath"
	"strings"
	"time"
)

// ---- types -----------------------------------------------------------------

type (
	FileInfo     = os.FileInfo
	FileMode     = os.FileMode
	DirEntry     = os.DirEntry
	PathError    = os.PathError
	LinkError    = os.LinkError
	SyscallError = os.SyscallError
	Signal       = os.Signal
	Process      = os.Process
	ProcessState = os.ProcessState
	ProcAttr     = os.ProcAttr
)

// ---- constants -------------------------------------------------------------

const (
	O_RDONLY = os.O_RDONLY
	O_WRONLY = os.O_WRONLY
	O_RDWR   = os.O_RDWR
	O_APPEND = os.O_APPEND
	O_CREATE = os.O_CREATE
	O_EXCL   = os.O_EXCL
	O_SYNC   = os.O_SYNC
	O_TRUNC  = os.O_TRUNC

	SEEK_SET = os.SEEK_SET
	SEEK_CUR = os.SEEK_CUR
	SEEK_END = os.SEEK_END

	PathSeparator     = os.PathSeparator
	PathListSeparator = os.PathListSeparator
	DevNull           = os.DevNull

	ModeDir        = os.ModeDir
	ModeAppend     = os.ModeAppend
	ModeExclusive  = os.ModeExclusive
	ModeTemporary  = os.ModeTemporary
	ModeSymlink    = os.ModeSymlink
	ModeDevice     = os.ModeDevice
	ModeNamedPipe  = os.ModeNamedPipe
	ModeSocket     = os.ModeSocket
	ModeSetuid     = os.ModeSetuid
	ModeSetgid     = os.ModeSetgid
	ModeCharDevice = os.ModeCharDevice
	ModeSticky     = os.ModeSticky
	ModeIrregular  = os.ModeIrregular
	ModeType       = os.ModeType
	ModePerm       = os.ModePerm
)

// ---- variables -------------------------------------------------------------

var (
	ErrInvalid          = os.ErrInvalid
	ErrPermission       = os.ErrPermission
	ErrExist            = os.ErrExist
	ErrNotExist         = os.ErrNotExist
	ErrClosed           = os.ErrClosed
	ErrNoDeadline       = os.ErrNoDeadline
	ErrDeadlineExceeded = os.ErrDeadlineExceeded
	ErrProcessDone      = os.ErrProcessDone

	Interrupt = os.Interrupt
	Kill      = os.Kill

	Args = os.Args

	// The standard streams are never recorded, tracked or stopped.
	Stdin  = &File{f: os.Stdin, path: os.Stdin.Name(), passthrough: true}
	Stdout = &File{f: os.Stdout, path: os.Stdout.Name(), passthrough: true}
	Stderr = &File{f: os.Stderr, path: os.Stderr.Name(), passthrough: true}
)

// ---- non-mutating functions: plain forwards --------------------------------

func Stat(name string) (FileInfo, error)      { return os.Stat(name) }
func Lstat(name string) (FileInfo, error)     { return os.Lstat(name) }
func ReadDir(name string) ([]DirEntry, error) { return os.ReadDir(name) }
func Readlink(name string) (string, error)    { return os.Readlink(name) }
func SameFile(fi1, fi2 FileInfo) bool         { return os.SameFile(fi1, fi2) }
func DirFS(dir string) fs.FS                  { return os.DirFS(dir) }

func IsExist(err error) bool                          { return os.IsExist(err) }
func IsNotExist(err error) bool                       { return os.IsNotExist(err) }
func IsPermission(err error) bool                     { return os.IsPermission(err) }
func IsTimeout(err error) bool                        { return os.IsTimeout(err) }
func IsPathSeparator(c uint8) bool                    { return os.IsPathSeparator(c) }
func NewSyscallError(syscall string, err error) error { return os.NewSyscallError(syscall, err) }

func Getenv(key string) string                      { return os.Getenv(key) }
func LookupEnv(key string) (string, bool)           { return os.LookupEnv(key) }
func Setenv(key, value string) error                { return os.Setenv(key, value) }
func Unsetenv(key string) error                     { return os.Unsetenv(key) }
func Clearenv()                                     { os.Clearenv() }
func Environ() []string                             { return os.Environ() }
func ExpandEnv(s string) string                     { return os.ExpandEnv(s) }
func Expand(s string, m func(string) string) string { return os.Expand(s, m) }

func TempDir() string                       { return os.TempDir() }
func Getwd() (string, error)                { return os.Getwd() }
func Chdir(dir string) error                { return os.Chdir(dir) }
func Hostname() (string, error)             { return os.Hostname() }
func Executable() (string, error)           { return os.Executable() }
func UserHomeDir() (string, error)          { return os.UserHomeDir() }
func UserCacheDir() (string, error)         { return os.UserCacheDir() }
func UserConfigDir() (string, error)        { return os.UserConfigDir() }
func Getpid() int                           { return os.Getpid() }
func Getppid() int                          { return os.Getppid() }
func Getuid() int                           { return os.Getuid() }
func Geteuid() int                          { return os.Geteuid() }
func Getgid() int                           { return os.Getgid() }
func Getegid() int                          { return os.Getegid() }
func Getgroups() ([]int, error)             { return os.Getgroups() }
func Getpagesize() int                      { return os.Getpagesize() }
func Exit(code int)                         { os.Exit(code) }
func FindProcess(pid int) (*Process, error) { return os.FindProcess(pid) }
func StartProcess(name string, argv []string, attr *ProcAttr) (*Process, error) {
	return os.StartProcess(name, argv, attr)
}

// ---- opening files -----------------------------------------------------------

// readFault consults the fault function (if one is installed) for a
// READ-SIDE open: Open, read-only OpenFile, ReadFile. Such a call is NOT
// recorded, gets no index of its own (Op.Index is the index of the last
// mutating operation) and is no stop point; Op.Kind is "open-read". With no
// fault function installed nothing changes.
func readFault(name string) error {
	fp := faultFn.Load()
	if fp == nil {
		return nil
	}
	p := absPath(name)
	opMu.Lock()
	defer opMu.Unlock()
	st.mu.Lock()
	idx := st.index
	st.mu.Unlock()
	f := (*fp)(Op{Index: idx, Kind: "open-read", Path: p, Phase: "before"})
	if f == nil || f.Err == nil {
		return nil
	}
	return &os.PathError{Op: "open", Path: name, Err: f.Err}
}

// ReadFile is not recorded; a FaultFunc sees it as Op{Kind: "open-read"}.
func ReadFile(name string) ([]byte, error) {
	if err := readFault(name); err != nil {
		return nil, err
	}
	return os.ReadFile(name)
}

// Open opens the named file for reading (not recorded; a FaultFunc sees it
// as Op{Kind: "open-read"}).
func Open(name string) (*File, error) {
	if err := readFault(name); err != nil {
		return nil, err
	}
	f, err := os.Open(name)
	if err != nil {
		return nil, err
	}
	return &File{f: f, path: absPath(name)}, nil
}

// Create is recorded as Op{Kind: "create"}; the synced length of the path
// becomes 0.
func Create(name string) (*File, error) {
	p := absPath(name)
	var f *os.File
	err := mutate("create", p, "", nil, func() (e error) {
		f, e = os.Create(name)
		if e == nil {
			trackSet(p, 0)
		}
		return e
	})
	if err != nil {
		return nil, err
	}
	return newWritable(f, p), nil
}

const writeFlags = os.O_WRONLY | os.O_RDWR | os.O_APPEND | os.O_CREATE | os.O_TRUNC

// OpenFile is recorded as Op{Kind: "openfile"} when flag contains any of
// O_WRONLY, O_RDWR, O_APPEND, O_CREATE, O_TRUNC; otherwise it is a plain
// forward.
func OpenFile(name string, flag int, perm FileMode) (*File, error) {
	p := absPath(name)
	if flag&writeFlags == 0 {
		if err := readFault(name); err != nil {
			return nil, err
		}
		f, err := os.OpenFile(name, flag, perm)
		if err != nil {
			return nil, err
		}
		return &File{f: f, path: p}, nil
	}
	var f *os.File
	err := mutate("openfile", p, "", nil, func() (e error) {
		_, serr := os.Lstat(name)
		existed := serr == nil
		f, e = os.OpenFile(name, flag, perm)
		if e != nil {
			return e
		}
		if !existed || flag&os.O_TRUNC != 0 {
			trackSet(p, 0)
		} else if st, serr := f.Stat(); serr == nil {
			// pre-existing content is assumed durable
			trackSetIfUnknown(p, st.Size())
		}
		return nil
	})
	if err != nil {
		return nil, err
	}
	return newWritable(f, p), nil
}

// CreateTemp is recorded as Op{Kind: "create"} with Path = dir/pattern.
func CreateTemp(dir, pattern string) (*File, error) {
	d := dir
	if d == "" {
		d = os.TempDir()
	}
	var f *os.File
	err := mutate("create", absPath(filepath.Join(d, pattern)), "", nil, func() (e error) {
		f, e = os.CreateTemp(dir, pattern)
		if e == nil {
			trackSet(absPath(f.Name()), 0)
		}
		return e
	})
	if err != nil {
		return nil, err
	}
	return newWritable(f, absPath(f.Name())), nil
}

// NewFile wraps a raw descriptor; such files are never recorded.
func NewFile(fd uintptr, name string) *File {
	f := os.NewFile(fd, name)
	if f == nil {
		return nil
	}
	return &File{f: f, path: name, passthrough: true}
}

// Pipe forwards to os.Pipe; pipe ends are never recorded.
func Pipe() (r *File, w *File, err error) {
	pr, pw, err := os.Pipe()
	if err != nil {
		return nil, nil, err
	}
	return &File{f: pr, path: pr.Name(), passthrough: true}, &File{f: pw, path: pw.Name(), passthrough: true}, nil
}

// Wrap turns an *os.File obtained elsewhere into a shim File. Writable files
// take part in recording; the current size is taken as synced length if the
// path is unknown to the tracker.
func Wrap(f *os.File, writable bool) *File {
	if f == nil {
		return nil
	}
	p := absPath(f.Name())
	if !writable {
		return &File{f: f, path: p}
	}
	if st, err := f.Stat(); err == nil {
		trackSetIfUnknown(p, st.Size())
	}
	return newWritable(f, p)
}

// ---- mutating path functions ---------------------------------------------------

func Remove(name string) error {
	p := absPath(name)
	return mutate("remove", p, "", nil, func() error {
		err := os.Remove(name)
		if err == nil {
			trackDelete(p)
		}
		return err
	})
}

func RemoveAll(path string) error {
	p := absPath(path)
	return mutate("removeall", p, "", nil, func() error {
		err := os.RemoveAll(path)
		trackDeleteTree(p)
		return err
	})
}

func Rename(oldpath, newpath string) error {
	po, pn := absPath(oldpath), absPath(newpath)
	return mutate("rename", po, pn, nil, func() error {
		err := os.Rename(oldpath, newpath)
		if err == nil {
			trackRename(po, pn)
		}
		return err
	})
}

func Mkdir(name string, perm FileMode) error {
	return mutate("mkdir", absPath(name), "", nil, func() error { return os.Mkdir(name, perm) })
}

func MkdirAll(path string, perm FileMode) error {
	return mutate("mkdirall", absPath(path), "", nil, func() error { return os.MkdirAll(path, perm) })
}

// MkdirTemp is recorded as Op{Kind: "mkdir"} with Path = dir/pattern.
func MkdirTemp(dir, pattern string) (string, error) {
	d := dir
	if d == "" {
		d = os.TempDir()
	}
	var name string
	err := mutate("mkdir", absPath(filepath.Join(d, pattern)), "", nil, func() (e error) {
		name, e = os.MkdirTemp(dir, pattern)
		return e
	})
	return name, err
}

// WriteFile is one recorded operation (Kind "writefile", Data = contents,
// no "mid" phase); it does not sync, so the synced length becomes 0.
func WriteFile(name string, data []byte, perm FileMode) error {
	p := absPath(name)
	return mutate("writefile", p, "", data, func() error {
		err := os.WriteFile(name, data, perm)
		trackSet(p, 0)
		return err
	})
}

func Truncate(name string, size int64) error {
	p := absPath(name)
	return mutate("truncate", p, "", nil, func() error {
		err := os.Truncate(name, size)
		if err == nil {
			trackClamp(p, size)
		}
		return err
	})
}

func Link(oldname, newname string) error {
	return mutate("link", absPath(oldname), absPath(newname), nil, func() error { return os.Link(oldname, newname) })
}

func Symlink(oldname, newname string) error {
	return mutate("symlink", oldname, absPath(newname), nil, func() error { return os.Symlink(oldname, newname) })
}

func Chmod(name string, mode FileMode) error {
	return mutate("chmod", absPath(name), "", nil, func() error { return os.Chmod(name, mode) })
}

func Chown(name string, uid, gid int) error {
	return mutate("chown", absPath(name), "", nil, func() error { return os.Chown(name, uid, gid) })
}

func Lchown(name string, uid, gid int) error {
	return mutate("chown", absPath(name), "", nil, func() error { return os.Lchown(name, uid, gid) })
}

func Chtimes(name string, atime, mtime time.Time) error {
	return mutate("chtimes", absPath(name), "", nil, func() error { return os.Chtimes(name, atime, mtime) })
}

// absPath normalises a path for use as tracker key / Op.Path.
func absPath(name string) string {
	if name == "" {
		return name
	}
	if a, err := filepath.Abs(name); err == nil {
		return a
	}
	return filepath.Clean(name)
}

func hasPathPrefix(p, dir string) bool {
	if p == dir {
		return true
	}
	if !strings.HasSuffix(dir, string(filepath.Separator)) {
		dir += string(filepath.Separator)
	}
	return strings.HasPrefix(p, dir)
}
