package osshim

import (
	"bytes"
	"errors"
	"fmt"
	"io"
	"os"
	"path/filepath"
	"reflect"
	"strings"
	"sync"
	"testing"
)

// compile-time: File satisfies the interfaces *os.File is usually used as.
var (
	_ io.ReadWriteCloser = (*File)(nil)
	_ io.Seeker          = (*File)(nil)
	_ io.ReaderAt        = (*File)(nil)
	_ io.WriterAt        = (*File)(nil)
	_ io.StringWriter    = (*File)(nil)
)

type recList struct {
	mu  sync.Mutex
	ops []Op
	fn  func(Op)
}

func (r *recList) Op(op Op) {
	r.mu.Lock()
	r.ops = append(r.ops, op)
	r.mu.Unlock()
	if r.fn != nil {
		r.fn(op)
	}
}

func (r *recList) summary() []string {
	r.mu.Lock()
	defer r.mu.Unlock()
	var out []string
	for _, op := range r.ops {
		s := fmt.Sprintf("%d %s %s %s", op.Index, op.Kind, op.Phase, filepath.Base(op.Path))
		if op.Path2 != "" {
			s += " -> " + filepath.Base(op.Path2)
		}
		if op.Data != nil {
			s += fmt.Sprintf(" %q/%d", op.Data, op.N)
		}
		out = append(out, s)
	}
	return out
}

func mustNoErr(t *testing.T, err error) {
	t.Helper()
	if err != nil {
		t.Fatal(err)
	}
}

func TestPassthrough(t *testing.T) {
	Reset()
	dir := t.TempDir()
	p := filepath.Join(dir, "sub", "a.txt")
	mustNoErr(t, MkdirAll(filepath.Dir(p), ModePerm))
	f, err := Create(p)
	mustNoErr(t, err)
	_, err = f.Write([]byte("hello "))
	mustNoErr(t, err)
	_, err = f.WriteString("world")
	mustNoErr(t, err)
	mustNoErr(t, f.Sync())
	if f.Name() != p {
		t.Fatalf("Name = %q", f.Name())
	}
	if f.OSFile() == nil {
		t.Fatal("OSFile nil")
	}
	mustNoErr(t, f.Close())
	if OpIndex() != 0 {
		t.Fatalf("index advanced without recorder: %d", OpIndex())
	}
	st, err := Stat(p)
	mustNoErr(t, err)
	if st.Size() != 11 {
		t.Fatalf("size %d", st.Size())
	}
	r, err := Open(p)
	mustNoErr(t, err)
	b, err := io.ReadAll(r)
	mustNoErr(t, err)
	mustNoErr(t, r.Close())
	if string(b) != "hello world" {
		t.Fatalf("content %q", b)
	}
	ents, err := ReadDir(filepath.Dir(p))
	mustNoErr(t, err)
	if len(ents) != 1 || ents[0].Name() != "a.txt" {
		t.Fatalf("ReadDir = %v", ents)
	}
	mustNoErr(t, Rename(p, p+".2"))
	if _, err := Stat(p); !IsNotExist(err) || !errors.Is(err, ErrNotExist) {
		t.Fatalf("Stat after rename: %v", err)
	}
	mustNoErr(t, Remove(p+".2"))
	if _, err := Open(p + ".2"); !IsNotExist(err) {
		t.Fatalf("Open removed: %v", err)
	}
	var nf *File
	if err := nf.Close(); !errors.Is(err, ErrInvalid) {
		t.Fatalf("nil Close: %v", err)
	}
}

func TestRecordSequence(t *testing.T) {
	Reset()
	defer Reset()
	dir := t.TempDir()
	rec := &recList{}
	SetRecorder(rec)

	mustNoErr(t, MkdirAll(filepath.Join(dir, "q"), ModePerm))    // 1
	f, err := Create(filepath.Join(dir, "q", "m.new"))           // 2
	mustNoErr(t, err)                                            //
	_, err = f.Write([]byte("abcdef"))                           // 3 (+mid)
	mustNoErr(t, err)                                            //
	_, err = f.Write([]byte("g"))                                // 4 (no mid)
	mustNoErr(t, err)                                            //
	mustNoErr(t, f.Sync())                                       // 5
	mustNoErr(t, f.Close())                                      // 6
	mustNoErr(t, Rename(f.Name(), filepath.Join(dir, "q", "m"))) // 7
	r, err := Open(filepath.Join(dir, "q", "m"))                 // not recorded
	mustNoErr(t, err)
	mustNoErr(t, r.Close()) // read-only close: not recorded
	_, err = Stat(filepath.Join(dir, "q", "m"))
	mustNoErr(t, err)
	mustNoErr(t, WriteFile(filepath.Join(dir, "w"), []byte("xy"), 0o600)) // 8
	mustNoErr(t, Remove(filepath.Join(dir, "q", "m")))                    // 9

	want := []string{
		`1 mkdirall before q`,
		`2 create before m.new`,
		`3 write before m.new "abcdef"/0`,
		`3 write mid m.new "abcdef"/3`,
		`4 write before m.new "g"/0`,
		`5 sync before m.new`,
		`6 close before m.new`,
		`7 rename before m.new -> m`,
		`8 writefile before w "xy"/0`,
		`9 remove before m`,
	}
	if got := rec.summary(); !reflect.DeepEqual(got, want) {
		t.Fatalf("ops:\n%s\nwant:\n%s", strings.Join(got, "\n"), strings.Join(want, "\n"))
	}
	if OpIndex() != 9 {
		t.Fatalf("OpIndex = %d", OpIndex())
	}
	SetRecorder(rec) // index restarts
	mustNoErr(t, Mkdir(filepath.Join(dir, "z"), 0o700))
	if rec.ops[len(rec.ops)-1].Index != 1 {
		t.Fatalf("index did not restart: %+v", rec.ops[len(rec.ops)-1])
	}
}

func TestSnapshotInsideCallback(t *testing.T) {
	Reset()
	defer Reset()
	dir := t.TempDir()
	snaps := map[string]map[string][]byte{}
	rec := &recList{}
	rec.fn = func(op Op) {
		s, err := Snapshot(dir)
		if err != nil {
			t.Errorf("snapshot in callback: %v", err)
		}
		snaps[fmt.Sprintf("%d/%s", op.Index, op.Phase)] = s
	}
	SetRecorder(rec)
	f, err := Create(filepath.Join(dir, "a")) // 1
	mustNoErr(t, err)
	_, err = f.Write([]byte("0123456789")) // 2
	mustNoErr(t, err)
	mustNoErr(t, f.Close()) // 3
	SetRecorder(nil)

	if _, ok := snaps["1/before"]["a"]; ok {
		t.Fatal("file exists before create")
	}
	if got := snaps["2/before"]["a"]; got == nil || len(got) != 0 {
		t.Fatalf("before write: %q", got)
	}
	if got := string(snaps["2/mid"]["a"]); got != "01234" {
		t.Fatalf("mid write: %q", got)
	}
	if got := string(snaps["3/before"]["a"]); got != "0123456789" {
		t.Fatalf("before close: %q", got)
	}
}

func TestDropUnsyncedAndRestore(t *testing.T) {
	Reset()
	defer Reset()
	dir := t.TempDir()
	// pre-existing file, unknown to the tracker
	mustNoErr(t, os.WriteFile(filepath.Join(dir, "pre"), []byte("old data"), 0o600))

	a, err := Create(filepath.Join(dir, "a"))
	mustNoErr(t, err)
	_, err = a.WriteString("synced|")
	mustNoErr(t, err)
	mustNoErr(t, a.Sync())
	_, err = a.WriteString("unsynced")
	mustNoErr(t, err)
	mustNoErr(t, a.Close())

	b, err := Create(filepath.Join(dir, "sub", "b"))
	if err == nil {
		t.Fatal("create in missing dir succeeded")
	}
	mustNoErr(t, MkdirAll(filepath.Join(dir, "sub"), ModePerm))
	b, err = Create(filepath.Join(dir, "sub", "b"))
	mustNoErr(t, err)
	_, err = b.WriteString("never synced")
	mustNoErr(t, err)
	mustNoErr(t, b.Close())

	// rename while open, then sync: tracking must follow the file
	c, err := Create(filepath.Join(dir, "c.new"))
	mustNoErr(t, err)
	_, err = c.WriteString("cc")
	mustNoErr(t, err)
	mustNoErr(t, Rename(filepath.Join(dir, "c.new"), filepath.Join(dir, "c")))
	if n, ok := SyncedLen(filepath.Join(dir, "c")); !ok || n != 0 {
		t.Fatalf("SyncedLen(c) = %d, %v", n, ok)
	}
	mustNoErr(t, c.Sync())
	mustNoErr(t, c.Close())
	if c.Path() != filepath.Join(dir, "c") {
		t.Fatalf("Path after rename = %q", c.Path())
	}

	// append to the pre-existing file without sync: old content is durable
	p, err := OpenFile(filepath.Join(dir, "pre"), O_WRONLY|O_APPEND, 0)
	mustNoErr(t, err)
	_, err = p.WriteString("+new")
	mustNoErr(t, err)
	mustNoErr(t, p.Close())

	// removed files disappear from the tracker
	d, err := Create(filepath.Join(dir, "d"))
	mustNoErr(t, err)
	mustNoErr(t, d.Close())
	mustNoErr(t, Remove(filepath.Join(dir, "d")))
	if _, ok := SyncedLen(filepath.Join(dir, "d")); ok {
		t.Fatal("removed file still tracked")
	}

	full, err := Snapshot(dir)
	mustNoErr(t, err)
	wantFull := map[string]string{"pre": "old data+new", "a": "synced|unsynced", "sub/b": "never synced", "c": "cc"}
	checkSnap(t, "full", full, wantFull)

	drop, err := SnapshotDropUnsynced(dir)
	mustNoErr(t, err)
	wantDrop := map[string]string{"pre": "old data", "a": "synced|", "sub/b": "", "c": "cc"}
	checkSnap(t, "drop", drop, wantDrop)

	// Restore into a fresh directory and compare.
	dir2 := filepath.Join(t.TempDir(), "restored")
	mustNoErr(t, Restore(dir2, drop))
	again, err := Snapshot(dir2)
	mustNoErr(t, err)
	checkSnap(t, "restored", again, wantDrop)
	// restored files are unknown to the tracker -> kept in full
	again2, err := SnapshotDropUnsynced(dir2)
	mustNoErr(t, err)
	checkSnap(t, "restored/drop", again2, wantDrop)

	ResetTracking()
	all, err := SnapshotDropUnsynced(dir)
	mustNoErr(t, err)
	checkSnap(t, "after ResetTracking", all, wantFull)
}

func checkSnap(t *testing.T, name string, got map[string][]byte, want map[string]string) {
	t.Helper()
	if len(got) != len(want) {
		t.Fatalf("%s: got %d files %v, want %d", name, len(got), keys(got), len(want))
	}
	for k, w := range want {
		g, ok := got[k]
		if !ok || string(g) != w {
			t.Fatalf("%s: file %q = %q (present=%v), want %q", name, k, g, ok, w)
		}
	}
}

func keys(m map[string][]byte) []string {
	var ks []string
	for k := range m {
		ks = append(ks, k)
	}
	return ks
}

func TestStopBefore(t *testing.T) {
	Reset()
	defer Reset()
	dir := t.TempDir()
	rec := &recList{}
	SetRecorder(rec)
	SetStopAt(3, "before")

	f, err := Create(filepath.Join(dir, "a")) // 1
	mustNoErr(t, err)
	_, err = f.Write([]byte("one")) // 2
	mustNoErr(t, err)
	if Stopped() {
		t.Fatal("stopped too early")
	}
	n, err := f.Write([]byte("two")) // 3: stopped
	if n != 0 || !errors.Is(err, ErrStopped) {
		t.Fatalf("write at stop point: %d, %v", n, err)
	}
	if !Stopped() {
		t.Fatal("not stopped")
	}
	if err := f.Sync(); !errors.Is(err, ErrStopped) {
		t.Fatalf("sync after stop: %v", err)
	}
	if err := Rename(filepath.Join(dir, "a"), filepath.Join(dir, "b")); !errors.Is(err, ErrStopped) {
		t.Fatalf("rename after stop: %v", err)
	}
	if _, err := Create(filepath.Join(dir, "c")); !errors.Is(err, ErrStopped) {
		t.Fatalf("create after stop: %v", err)
	}
	if err := Remove(filepath.Join(dir, "a")); !errors.Is(err, ErrStopped) {
		t.Fatalf("remove after stop: %v", err)
	}
	if err := f.Close(); !errors.Is(err, ErrStopped) {
		t.Fatalf("close after stop: %v", err)
	}
	// descriptor really released
	if _, err := f.OSFile().Write([]byte("x")); !errors.Is(err, os.ErrClosed) {
		t.Fatalf("fd still open: %v", err)
	}
	// reads still work
	b, err := ReadFile(filepath.Join(dir, "a"))
	mustNoErr(t, err)
	if string(b) != "one" {
		t.Fatalf("content %q", b)
	}
	snap, err := SnapshotDropUnsynced(dir)
	mustNoErr(t, err)
	checkSnap(t, "crash state", snap, map[string]string{"a": ""})

	// callback for the triggering op was delivered, nothing afterwards
	want := []string{`1 create before a`, `2 write before a "one"/0`, `2 write mid a "one"/1`, `3 write before a "two"/0`}
	if got := rec.summary(); !reflect.DeepEqual(got, want) {
		t.Fatalf("ops: %v", got)
	}

	// SetRecorder clears the stopped state
	SetRecorder(nil)
	if Stopped() {
		t.Fatal("still stopped")
	}
	mustNoErr(t, Remove(filepath.Join(dir, "a")))
}

func TestStopMid(t *testing.T) {
	Reset()
	defer Reset()
	dir := t.TempDir()
	SetRecorder(nil)
	SetStopAt(2, "mid") // works without a recorder

	f, err := Create(filepath.Join(dir, "a")) // 1
	mustNoErr(t, err)
	n, err := f.Write([]byte("abcdefg")) // 2
	if n != 3 || !errors.Is(err, ErrStopped) {
		t.Fatalf("mid-stopped write: %d, %v", n, err)
	}
	if !Stopped() {
		t.Fatal("not stopped")
	}
	f.Close()
	b, err := ReadFile(filepath.Join(dir, "a"))
	mustNoErr(t, err)
	if string(b) != "abc" {
		t.Fatalf("content %q", b)
	}

	// "mid" on an op without mid phase: stop right after it.
	SetRecorder(nil)
	SetStopAt(1, "mid")
	mustNoErr(t, Mkdir(filepath.Join(dir, "d"), 0o700)) // 1 completes
	if !Stopped() {
		t.Fatal("not stopped after op without mid phase")
	}
	if err := Mkdir(filepath.Join(dir, "e"), 0o700); !errors.Is(err, ErrStopped) {
		t.Fatalf("%v", err)
	}
	SetStopAt(0, "")
	SetRecorder(nil)
}

func TestStopNowFromCallback(t *testing.T) {
	Reset()
	defer Reset()
	dir := t.TempDir()
	rec := &recList{}
	rec.fn = func(op Op) {
		if op.Kind == "rename" {
			StopNow()
		}
	}
	SetRecorder(rec)
	mustNoErr(t, WriteFile(filepath.Join(dir, "x.new"), []byte("data"), 0o600))
	err := Rename(filepath.Join(dir, "x.new"), filepath.Join(dir, "x"))
	if !errors.Is(err, ErrStopped) {
		t.Fatalf("rename: %v", err)
	}
	if _, err := Stat(filepath.Join(dir, "x")); !IsNotExist(err) {
		t.Fatal("rename happened despite StopNow")
	}
	if _, err := Stat(filepath.Join(dir, "x.new")); err != nil {
		t.Fatal(err)
	}
}

func TestIOCopyIsRecorded(t *testing.T) {
	Reset()
	defer Reset()
	dir := t.TempDir()
	rec := &recList{}
	SetRecorder(rec)
	f, err := Create(filepath.Join(dir, "body"))
	mustNoErr(t, err)
	payload := bytes.Repeat([]byte("0123456789abcdef"), 8192) // 128 KiB
	// strings.Reader / bytes.Reader have WriteTo; hide it to force chunks.
	n, err := io.Copy(f, struct{ io.Reader }{bytes.NewReader(payload)})
	mustNoErr(t, err)
	if n != int64(len(payload)) {
		t.Fatalf("copied %d", n)
	}
	mustNoErr(t, f.Close())
	writes := 0
	for _, op := range rec.ops {
		if op.Kind == "write" && op.Phase == "before" {
			writes++
		}
	}
	if writes < 2 {
		t.Fatalf("expected chunked recorded writes, got %d", writes)
	}
	got, err := ReadFile(filepath.Join(dir, "body"))
	mustNoErr(t, err)
	if !bytes.Equal(got, payload) {
		t.Fatal("payload mismatch")
	}
}

func TestConcurrentRecordedOps(t *testing.T) {
	Reset()
	defer Reset()
	dir := t.TempDir()
	rec := &recList{}
	rec.fn = func(op Op) {
		if op.Index%7 == 0 {
			if _, err := SnapshotDropUnsynced(dir); err != nil {
				t.Errorf("snapshot: %v", err)
			}
		}
	}
	SetRecorder(rec)
	var wg sync.WaitGroup
	for g := 0; g < 6; g++ {
		wg.Add(1)
		go func(g int) {
			defer wg.Done()
			for i := 0; i < 20; i++ {
				p := filepath.Join(dir, fmt.Sprintf("f%d_%d", g, i))
				f, err := Create(p + ".new")
				if err != nil {
					t.Error(err)
					return
				}
				f.WriteString("some payload")
				f.Sync()
				f.Close()
				if err := Rename(p+".new", p); err != nil {
					t.Error(err)
				}
				if i%2 == 0 {
					Remove(p)
				}
			}
		}(g)
	}
	wg.Wait()
	SetRecorder(nil)
	// indices are unique and dense for "before" phases
	seen := map[int]bool{}
	max := 0
	for _, op := range rec.ops {
		if op.Phase != "before" {
			continue
		}
		if seen[op.Index] {
			t.Fatalf("duplicate index %d", op.Index)
		}
		seen[op.Index] = true
		if op.Index > max {
			max = op.Index
		}
	}
	if max != len(seen) {
		t.Fatalf("indices not dense: max %d, n %d", max, len(seen))
	}
	snap, err := SnapshotDropUnsynced(dir)
	mustNoErr(t, err)
	if len(snap) != 60 {
		t.Fatalf("%d files left", len(snap))
	}
	for k, v := range snap {
		if string(v) != "some payload" {
			t.Fatalf("%s = %q", k, v)
		}
	}
}
