package osshim

import (
	"errors"
	"io/fs"
	"os"
	"path/filepath"
	"sync"
	"sync/atomic"
)

// Op describes one mutating file-system call.
//
// Kinds: create, openfile, write, writeat, sync, close, rename, remove,
// removeall, mkdir, mkdirall, writefile, truncate, link, symlink, chmod,
// chown, chtimes.
type Op struct {
	Index int    // 1-based, counted since the last SetRecorder call
	Kind  string //
	Path  string // absolute path (rename/link: old path)
	Path2 string // rename/link/symlink: new path
	Data  []byte // write, writeat, writefile: the complete data (a copy)
	Phase string // "before": nothing of the op happened yet; "mid": first N bytes of Data written
	N     int    // Phase "mid": number of bytes already written (len(Data)/2)
}

// Recorder receives every mutating operation right before it is performed
// (Phase "before") and, for writes of at least two bytes, once more after
// the first half was written (Phase "mid", same Index).
//
// Callbacks run while the shim holds its operation lock: no other recorded
// operation is in flight, so Snapshot / SnapshotDropUnsynced observe exactly
// the effects of operations 1..Index-1 (plus N bytes for "mid"). A callback
// may call Snapshot*, Restore, SetStopAt, StopNow, Stopped and OpIndex; it
// must not call mutating shim functions (deadlock).
type Recorder interface {
	Op(op Op)
}

// RecorderFunc adapts a function to Recorder.
type RecorderFunc func(Op)

func (f RecorderFunc) Op(op Op) { f(op) }

// ErrStopped is returned by every mutating call after a crash-stop.
var ErrStopped = errors.New("osshim: stopped (simulated crash)")

var (
	// armed is true iff a recorder is installed, a stop point is set or the
	// shim is stopped. While false, mutating calls are plain forwards.
	armed atomic.Bool
	// opMu serialises recorded operations (callback + operation).
	opMu sync.Mutex

	st struct {
		mu        sync.Mutex
		rec       Recorder
		index     int
		stopIdx   int
		stopPhase string
		stopped   bool
		synced    map[string]int64
		open      map[*File]struct{}
	}
)

func init() {
	st.synced = map[string]int64{}
	st.open = map[*File]struct{}{}
}

func rearmLocked() {
	armed.Store(st.rec != nil || st.stopIdx > 0 || st.stopped || faultFn.Load() != nil)
}

// SetRecorder installs r (nil: passthrough). It resets the operation index
// to 0, clears a pending stop point and the stopped state. Synced-length
// tracking is not touched (see ResetTracking).
func SetRecorder(r Recorder) {
	st.mu.Lock()
	defer st.mu.Unlock()
	st.rec = r
	st.index = 0
	st.stopIdx = 0
	st.stopPhase = ""
	st.stopped = false
	rearmLocked()
}

// SetStopAt arms a crash-stop: when the operation with the given index
// reaches the given phase ("before" or "mid") the shim becomes stopped: that
// operation (for "mid": its second half) and every later mutating call is a
// no-op returning ErrStopped. The recorder callback for the triggering
// index/phase is still delivered first. "mid" on an operation that has no
// mid phase (anything but a write of >= 2 bytes) stops right after that
// operation completed. index <= 0 disarms. The index is not reset: call
// SetRecorder (possibly with nil) first, then SetStopAt.
func SetStopAt(index int, phase string) {
	st.mu.Lock()
	defer st.mu.Unlock()
	if index <= 0 {
		st.stopIdx, st.stopPhase = 0, ""
	} else {
		if phase != "mid" {
			phase = "before"
		}
		st.stopIdx, st.stopPhase = index, phase
	}
	rearmLocked()
}

// StopNow crash-stops immediately. Called from a recorder callback it
// suppresses the operation (or, for "mid", the second half) being reported.
func StopNow() {
	st.mu.Lock()
	defer st.mu.Unlock()
	st.stopped = true
	rearmLocked()
}

// Stopped reports whether a crash-stop happened.
func Stopped() bool {
	st.mu.Lock()
	defer st.mu.Unlock()
	return st.stopped
}

// OpIndex returns the index of the latest counted operation.
func OpIndex() int {
	st.mu.Lock()
	defer st.mu.Unlock()
	return st.index
}

// Reset = SetFaultFunc(nil) + SetRecorder(nil) + ResetTracking().
func Reset() {
	SetFaultFunc(nil)
	SetRecorder(nil)
	ResetTracking()
}

// mutate runs fn as a recorded mutating operation.
func mutate(kind, p1, p2 string, data []byte, fn func() error) error {
	if !armed.Load() {
		return fn()
	}
	opMu.Lock()
	defer opMu.Unlock()
	idx, ok := begin(kind, p1, p2, data)
	if !ok {
		return ErrStopped
	}
	if f := injected(idx, kind, p1, p2, data); f != nil {
		finish(idx)
		return faultError(kind, p1, p2, f.Err)
	}
	err := fn()
	finish(idx)
	return err
}

// begin assigns the index, delivers the "before" callback and evaluates the
// stop point. Caller holds opMu.
func begin(kind, p1, p2 string, data []byte) (int, bool) {
	st.mu.Lock()
	if st.stopped {
		st.mu.Unlock()
		return 0, false
	}
	st.index++
	idx := st.index
	rec := st.rec
	st.mu.Unlock()

	if rec != nil {
		rec.Op(Op{Index: idx, Kind: kind, Path: p1, Path2: p2, Data: cloneBytes(data), Phase: "before"})
	}

	st.mu.Lock()
	if st.stopIdx == idx && st.stopPhase == "before" {
		st.stopped = true
	}
	stopped := st.stopped
	st.mu.Unlock()
	return idx, !stopped
}

// mid delivers the "mid" callback; false means: do not write the rest.
func mid(idx int, kind, p string, data []byte, n int) bool {
	st.mu.Lock()
	rec := st.rec
	st.mu.Unlock()
	if rec != nil {
		rec.Op(Op{Index: idx, Kind: kind, Path: p, Data: cloneBytes(data), Phase: "mid", N: n})
	}
	st.mu.Lock()
	if st.stopIdx == idx && st.stopPhase == "mid" {
		st.stopped = true
	}
	stopped := st.stopped
	st.mu.Unlock()
	return !stopped
}

// finish handles a "mid" stop point on an operation without mid phase.
func finish(idx int) {
	st.mu.Lock()
	if st.stopIdx == idx && st.stopPhase == "mid" {
		st.stopped = true
	}
	st.mu.Unlock()
}

func cloneBytes(b []byte) []byte {
	if b == nil {
		return nil
	}
	return append([]byte(nil), b...)
}

// ---- synced-length tracking -----------------------------------------------------

func trackSet(p string, n int64) {
	st.mu.Lock()
	st.synced[p] = n
	st.mu.Unlock()
}

func trackSetIfUnknown(p string, n int64) {
	st.mu.Lock()
	if _, ok := st.synced[p]; !ok {
		st.synced[p] = n
	}
	st.mu.Unlock()
}

func trackClamp(p string, n int64) {
	st.mu.Lock()
	if cur, ok := st.synced[p]; ok && cur > n {
		st.synced[p] = n
	}
	st.mu.Unlock()
}

func trackDelete(p string) {
	st.mu.Lock()
	delete(st.synced, p)
	st.mu.Unlock()
}

func trackDeleteTree(dir string) {
	st.mu.Lock()
	for p := range st.synced {
		if hasPathPrefix(p, dir) {
			delete(st.synced, p)
		}
	}
	st.mu.Unlock()
}

func trackRename(po, pn string) {
	st.mu.Lock()
	if n, ok := st.synced[po]; ok {
		st.synced[pn] = n
		delete(st.synced, po)
	} else {
		// an unknown (pre-existing, durable) file replaces the target
		delete(st.synced, pn)
	}
	for f := range st.open {
		if f.path == po {
			f.path = pn
		}
	}
	st.mu.Unlock()
}

func registerOpen(f *File) {
	st.mu.Lock()
	st.open[f] = struct{}{}
	st.mu.Unlock()
}

func unregisterOpen(f *File) {
	st.mu.Lock()
	delete(st.open, f)
	st.mu.Unlock()
}

func curPath(f *File) string {
	if !f.writable {
		return f.path
	}
	st.mu.Lock()
	p := f.path
	st.mu.Unlock()
	return p
}

// ResetTracking forgets all synced lengths: every existing file counts as
// pre-existing (fully durable) afterwards.
func ResetTracking() {
	st.mu.Lock()
	st.synced = map[string]int64{}
	st.mu.Unlock()
}

// SyncedLen returns the tracked synced length of path; ok is false for files
// unknown to the tracker.
func SyncedLen(path string) (n int64, ok bool) {
	p := absPath(path)
	st.mu.Lock()
	n, ok = st.synced[p]
	st.mu.Unlock()
	return
}

// ---- snapshots --------------------------------------------------------------------

// Snapshot reads all regular files below dir: slash-separated relative name
// -> contents.
func Snapshot(dir string) (map[string][]byte, error) {
	return snapshot(dir, false)
}

// SnapshotDropUnsynced is Snapshot with every file truncated to its tracked
// synced length: files created through the shim and never synced are empty,
// files unknown to the tracker (pre-existing) are kept in full. It models
// the loss of all data that was not fsync'ed; directory operations (create,
// rename, remove) are treated as immediately durable.
func SnapshotDropUnsynced(dir string) (map[string][]byte, error) {
	return snapshot(dir, true)
}

func snapshot(dir string, drop bool) (map[string][]byte, error) {
	out := map[string][]byte{}
	err := filepath.WalkDir(dir, func(p string, d fs.DirEntry, err error) error {
		if err != nil {
			if p != dir && errors.Is(err, fs.ErrNotExist) {
				return nil // raced with a removal
			}
			return err
		}
		if !d.Type().IsRegular() {
			return nil
		}
		data, err := os.ReadFile(p)
		if err != nil {
			if errors.Is(err, fs.ErrNotExist) {
				return nil
			}
			return err
		}
		if drop {
			if n, ok := SyncedLen(p); ok && n < int64(len(data)) {
				data = data[:n]
			}
		}
		rel, err := filepath.Rel(dir, p)
		if err != nil {
			return err
		}
		if data == nil {
			data = []byte{}
		}
		out[filepath.ToSlash(rel)] = data
		return nil
	})
	if err != nil {
		return nil, err
	}
	return out, nil
}

// Restore materialises snap below dir (created if necessary; existing files
// of the same name are overwritten, others are left alone). It uses the real
// os package (never recorded) and forgets tracking for everything below dir,
// i.e. restored files count as fully durable.
func Restore(dir string, snap map[string][]byte) error {
	if err := os.MkdirAll(dir, 0o777); err != nil {
		return err
	}
	for rel, data := range snap {
		p := filepath.Join(dir, filepath.FromSlash(rel))
		if err := os.MkdirAll(filepath.Dir(p), 0o777); err != nil {
			return err
		}
		if err := os.WriteFile(p, data, 0o666); err != nil {
			return err
		}
	}
	trackDeleteTree(absPath(dir))
	return nil
}
