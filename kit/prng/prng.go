// Package prng is the deterministic generator every harness draws from.
// A generator is derived from (seed, case index, label) so that one case can be
// replayed without running the others.
package prng

import (
	"hash/fnv"
	"math/bits"
)

type R struct{ s [4]uint64 }

func splitmix(x *uint64) uint64 {
	*x += 0x9e3779b97f4a7c15
	z := *x
	z = (z ^ (z >> 30)) * 0xbf58476d1ce4e5b9
	z = (z ^ (z >> 27)) * 0x94d049bb133111eb
	return z ^ (z >> 31)
}

// New derives a generator from a seed, a case index and a label.
func New(seed uint64, index uint64, label string) *R {
	h := fnv.New64a()
	h.Write([]byte(label))
	x := seed*0x9e3779b97f4a7c15 ^ bits.RotateLeft64(index, 32) ^ h.Sum64()
	r := &R{}
	for i := range r.s {
		r.s[i] = splitmix(&x)
	}
	return r
}

// Uint64 is xoshiro256**.
func (r *R) Uint64() uint64 {
	s := &r.s
	res := bits.RotateLeft64(s[1]*5, 7) * 9
	t := s[1] << 17
	s[2] ^= s[0]
	s[3] ^= s[1]
	s[1] ^= s[2]
	s[0] ^= s[3]
	s[2] ^= t
	s[3] = bits.RotateLeft64(s[3], 45)
	return res
}

// Intn returns a value in [0,n). n<=0 yields 0.
func (r *R) Intn(n int) int {
	if n <= 1 {
		return 0
	}
	return int(r.Uint64() % uint64(n))
}

// Range returns a value in [lo,hi].
func (r *R) Range(lo, hi int) int {
	if hi <= lo {
		return lo
	}
	return lo + r.Intn(hi-lo+1)
}

func (r *R) Bool() bool { return r.Uint64()&1 == 1 }

// Chance is true with probability num/den.
func (r *R) Chance(num, den int) bool { return r.Intn(den) < num }

func (r *R) Float() float64 { return float64(r.Uint64()>>11) / (1 << 53) }

func (r *R) Bytes(n int) []byte {
	b := make([]byte, n)
	for i := 0; i < n; i += 8 {
		v := r.Uint64()
		for j := 0; j < 8 && i+j < n; j++ {
			b[i+j] = byte(v >> (8 * j))
		}
	}
	return b
}

func (r *R) Perm(n int) []int {
	p := make([]int, n)
	for i := range p {
		p[i] = i
	}
	for i := n - 1; i > 0; i-- {
		j := r.Intn(i + 1)
		p[i], p[j] = p[j], p[i]
	}
	return p
}

// Pick returns one element of xs.
func Pick[T any](r *R, xs []T) T { return xs[r.Intn(len(xs))] }

// Weighted picks index i with probability w[i]/sum(w).
func (r *R) Weighted(w []int) int {
	sum := 0
	for _, x := range w {
		sum += x
	}
	if sum <= 0 {
		return 0
	}
	v := r.Intn(sum)
	for i, x := range w {
		if v < x {
			return i
		}
		v -= x
	}
	return len(w) - 1
}

// Fork derives an independent generator.
func (r *R) Fork(label string) *R { return New(r.Uint64(), r.Uint64(), label) }
