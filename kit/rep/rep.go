// Package rep is the result channel between a harness process (one shard of
// one check) and the ./check driver.
//
// Environment (set by the driver):
//
//	VERIF_SEED    integer seed (default 1)
//	VERIF_TIER    quick | thorough (default quick)
//	VERIF_SHARD   "i/n": this process runs the cases whose index % n == i
//	VERIF_OUT     directory for result files (default: os.TempDir())
//	VERIF_REPLAY  path of a replay file: run exactly the recorded case
//
// Files written into VERIF_OUT, all prefixed shard-<i>:
//
//	.progress     id of every case, written BEFORE it runs (attribution of fatal events)
//	.viol.jsonl   one record per violation, written immediately
//	.shapes       8-byte hashes of distinct non-trivial shapes
//	.json         counters, samples, inconclusive list (written by Close)
package rep

import (
	"encoding/binary"
	"encoding/json"
	"fmt"
	"hash/fnv"
	"os"
	"path/filepath"
	"runtime"
	"runtime/debug"
	"sort"
	"strconv"
	"strings"
	"sync"
	"time"
)

const maxShapes = 4 << 20
const maxSamples = 6

type Replay struct {
	Property  string          `json:"property"`
	Seed      uint64          `json:"seed"`
	Tier      string          `json:"tier"`
	CaseIndex int             `json:"case_index"`
	CaseID    string          `json:"case_id"`
	Signature string          `json:"signature"`
	What      string          `json:"what"`
	Witness   json.RawMessage `json:"witness,omitempty"`
}

type violation struct {
	Property  string `json:"property"`
	Seed      uint64 `json:"seed"`
	Tier      string `json:"tier"`
	CaseIndex int    `json:"case_index"`
	CaseID    string `json:"case_id"`
	Signature string `json:"signature"`
	What      string `json:"what"`
	Witness   any    `json:"witness,omitempty"`
}

type Reporter struct {
	Property string
	seed     uint64
	tier     string
	shard    int
	nshard   int
	out      string
	replay   *Replay

	mu           sync.Mutex
	evaluations  int64
	nontrivial   int64
	shapes       map[uint64]struct{}
	shapesCapped bool
	counters     map[string]int64
	sets         map[string]map[string]struct{}
	extra        map[string]any
	samples      []any
	inconclusive []string
	nviol        int
	sigs         map[string]int
	progress     *os.File
	violFile     *os.File
	start        time.Time
	closed       bool
}

// Open creates the reporter for this process.
func Open(property string) *Reporter {
	r := &Reporter{
		Property: property,
		seed:     1,
		tier:     "quick",
		nshard:   1,
		shapes:   map[uint64]struct{}{},
		counters: map[string]int64{},
		sets:     map[string]map[string]struct{}{},
		extra:    map[string]any{},
		sigs:     map[string]int{},
		start:    time.Now(),
	}
	if v := os.Getenv("VERIF_SEED"); v != "" {
		if n, err := strconv.ParseUint(v, 10, 64); err == nil {
			r.seed = n
		} else if n, err := strconv.ParseInt(v, 10, 64); err == nil {
			r.seed = uint64(n)
		}
	}
	if v := os.Getenv("VERIF_TIER"); v == "thorough" {
		r.tier = v
	}
	if v := os.Getenv("VERIF_SHARD"); v != "" {
		var i, n int
		if _, err := fmt.Sscanf(v, "%d/%d", &i, &n); err == nil && n > 0 && i >= 0 && i < n {
			r.shard, r.nshard = i, n
		}
	}
	r.out = os.Getenv("VERIF_OUT")
	if r.out == "" {
		r.out = os.TempDir()
	}
	os.MkdirAll(r.out, 0o777)
	if v := os.Getenv("VERIF_REPLAY"); v != "" {
		b, err := os.ReadFile(v)
		if err != nil {
			panic("rep: cannot read replay file: " + err.Error())
		}
		var rp Replay
		if err := json.Unmarshal(b, &rp); err != nil {
			panic("rep: bad replay file: " + err.Error())
		}
		r.replay = &rp
		r.seed = rp.Seed
		if rp.Tier == "thorough" {
			r.tier = rp.Tier
		} else {
			r.tier = "quick"
		}
		r.shard, r.nshard = 0, 1
	}
	base := filepath.Join(r.out, fmt.Sprintf("shard-%d", r.shard))
	r.progress, _ = os.OpenFile(base+".progress", os.O_CREATE|os.O_WRONLY|os.O_TRUNC, 0o666)
	r.violFile, _ = os.OpenFile(base+".viol.jsonl", os.O_CREATE|os.O_WRONLY|os.O_TRUNC, 0o666)
	return r
}

func (r *Reporter) Seed() uint64      { return r.seed }
func (r *Reporter) Tier() string      { return r.tier }
func (r *Reporter) Quick() bool       { return r.tier != "thorough" }
func (r *Reporter) Thorough() bool    { return r.tier == "thorough" }
func (r *Reporter) Shard() (int, int) { return r.shard, r.nshard }
func (r *Reporter) OutDir() string    { return r.out }
func (r *Reporter) Replaying() bool   { return r.replay != nil }

// ReplayWitness returns the witness stored in the replay file (nil if none).
func (r *Reporter) ReplayWitness() json.RawMessage {
	if r.replay == nil {
		return nil
	}
	return r.replay.Witness
}

// N picks the tier's case count.
func (r *Reporter) N(quick, thorough int) int {
	if r.Thorough() {
		return thorough
	}
	return quick
}

// Want says whether this process runs case index i.
func (r *Reporter) Want(i int) bool {
	if r.replay != nil {
		return i == r.replay.CaseIndex
	}
	return i%r.nshard == r.shard
}

// Case is one execution judged by the monitors.
type Case struct {
	r     *Reporter
	Index int
	ID    string
	done  bool
	viol  int
}

// Begin logs the case id to disk and returns its handle. Callers normally use Run.
func (r *Reporter) Begin(i int, id string) *Case {
	r.mu.Lock()
	if r.progress != nil {
		fmt.Fprintf(r.progress, "%d %s\n", i, id)
	}
	r.mu.Unlock()
	return &Case{r: r, Index: i, ID: id}
}

// Run executes fn for case i if this shard owns it; a panic escaping fn is a
// violation with signature "panic/<function>".
func (r *Reporter) Run(i int, id string, fn func(c *Case)) {
	if !r.Want(i) {
		return
	}
	c := r.Begin(i, id)
	defer func() {
		if v := recover(); v != nil {
			st := string(debug.Stack())
			c.Violation("panic/"+PanicSite(st), fmt.Sprintf("panic: %v", v), map[string]any{"stack": trimStack(st)})
		}
		if !c.done {
			c.Done("", false)
		}
	}()
	fn(c)
}

// PanicSite extracts the innermost maddy (or harness) function from a stack.
func PanicSite(stack string) string {
	lines := strings.Split(stack, "\n")
	seenPanic := false
	for _, l := range lines {
		if strings.HasPrefix(l, "panic(") {
			seenPanic = true
			continue
		}
		if !seenPanic || strings.HasPrefix(l, "\t") || l == "" {
			continue
		}
		if strings.HasPrefix(l, "github.com/foxcpp/maddy/") && !strings.Contains(l, "/zzverif/") {
			fn := strings.TrimPrefix(l, "github.com/foxcpp/maddy/")
			if k := strings.LastIndex(fn, "("); k > 0 {
				fn = fn[:k]
			}
			return fn
		}
	}
	for _, l := range lines {
		if strings.HasPrefix(l, "github.com/foxcpp/maddy/") && !strings.Contains(l, "/zzverif/") {
			fn := strings.TrimPrefix(l, "github.com/foxcpp/maddy/")
			if k := strings.LastIndex(fn, "("); k > 0 {
				fn = fn[:k]
			}
			return fn
		}
	}
	return "unknown"
}

func trimStack(s string) string {
	if len(s) > 6000 {
		return s[:6000] + "\n...[truncated]"
	}
	return s
}

// Violation records a violation. sig must be a cause-class signature (no random data).
func (c *Case) Violation(sig, what string, witness any) {
	r := c.r
	r.mu.Lock()
	defer r.mu.Unlock()
	c.viol++
	r.nviol++
	r.sigs[sig]++
	if r.sigs[sig] > 3 { // keep at most 3 witnesses per signature and shard
		return
	}
	v := violation{Property: r.Property, Seed: r.seed, Tier: r.tier, CaseIndex: c.Index, CaseID: c.ID, Signature: sig, What: what, Witness: witness}
	b, err := json.Marshal(v)
	if err != nil {
		v.Witness = fmt.Sprintf("%+v", witness)
		b, _ = json.Marshal(v)
	}
	if r.violFile != nil {
		r.violFile.Write(append(b, '\n'))
	}
	if r.replay != nil {
		fmt.Printf("REPLAY-VIOLATION %s: %s\n", sig, what)
	}
}

// Violated says whether this case has recorded a violation so far.
func (c *Case) Violated() bool { return c.viol > 0 }

// Inconclusive records that this case could not be decided.
func (c *Case) Inconclusive(why string) {
	r := c.r
	r.mu.Lock()
	defer r.mu.Unlock()
	if len(r.inconclusive) < 50 {
		r.inconclusive = append(r.inconclusive, c.ID+": "+why)
	}
	r.counters["inconclusive"]++
}

// Done counts the case. shape identifies its scenario class; nontrivial says
// whether it exercised the property by the harness' stated rule.
func (c *Case) Done(shape string, nontrivial bool) {
	if c.done {
		return
	}
	c.done = true
	r := c.r
	r.mu.Lock()
	defer r.mu.Unlock()
	r.evaluations++
	if nontrivial {
		r.nontrivial++
		if len(r.shapes) < maxShapes {
			h := fnv.New64a()
			h.Write([]byte(shape))
			r.shapes[h.Sum64()] = struct{}{}
		} else {
			r.shapesCapped = true
		}
	}
}

// Eval counts n additional evaluations that are not cases of their own
// (bulk law evaluations); shapes lists distinct non-trivial shape strings seen.
func (r *Reporter) Eval(n int64, shapes ...string) {
	r.mu.Lock()
	defer r.mu.Unlock()
	r.evaluations += n
	for _, s := range shapes {
		if len(r.shapes) < maxShapes {
			h := fnv.New64a()
			h.Write([]byte(s))
			r.shapes[h.Sum64()] = struct{}{}
		}
	}
}

// Count adds n to a named observation counter (shown in the evidence).
func (r *Reporter) Count(key string, n int64) {
	r.mu.Lock()
	r.counters[key] += n
	r.mu.Unlock()
}

// Distinct adds a member to a named set; the evidence shows the set's size
// (and the members when there are at most 64).
func (r *Reporter) Distinct(key, member string) {
	r.mu.Lock()
	m := r.sets[key]
	if m == nil {
		m = map[string]struct{}{}
		r.sets[key] = m
	}
	if len(m) < 1<<20 {
		m[member] = struct{}{}
	}
	r.mu.Unlock()
}

// Set stores an extra coverage key (the driver keeps the value of the lowest shard; use for constants like "exhaustive").
func (r *Reporter) Set(key string, v any) {
	r.mu.Lock()
	r.extra[key] = v
	r.mu.Unlock()
}

// Sample keeps a few literal cases for the evidence file.
func (r *Reporter) Sample(v any) {
	r.mu.Lock()
	if len(r.samples) < maxSamples {
		r.samples = append(r.samples, v)
	}
	r.mu.Unlock()
}

type shardResult struct {
	Property     string              `json:"property"`
	Shard        int                 `json:"shard"`
	NShard       int                 `json:"nshard"`
	Seed         uint64              `json:"seed"`
	Tier         string              `json:"tier"`
	Evaluations  int64               `json:"evaluations"`
	Nontrivial   int64               `json:"nontrivial"`
	ShapesCapped bool                `json:"shapes_capped"`
	Counters     map[string]int64    `json:"counters"`
	Sets         map[string][]string `json:"sets"`
	Extra        map[string]any      `json:"extra"`
	Samples      []any               `json:"samples"`
	Inconclusive []string            `json:"inconclusive"`
	Violations   int                 `json:"violations"`
	Signatures   map[string]int      `json:"signatures"`
	WallS        float64             `json:"wall_s"`
	Goroutines   int                 `json:"goroutines_at_close"`
}

// Close writes the shard result.
func (r *Reporter) Close() {
	r.mu.Lock()
	defer r.mu.Unlock()
	if r.closed {
		return
	}
	r.closed = true
	base := filepath.Join(r.out, fmt.Sprintf("shard-%d", r.shard))
	hs := make([]uint64, 0, len(r.shapes))
	for h := range r.shapes {
		hs = append(hs, h)
	}
	sort.Slice(hs, func(i, j int) bool { return hs[i] < hs[j] })
	buf := make([]byte, 8*len(hs))
	for i, h := range hs {
		binary.LittleEndian.PutUint64(buf[8*i:], h)
	}
	os.WriteFile(base+".shapes", buf, 0o666)
	sets := map[string][]string{}
	for k, m := range r.sets {
		l := make([]string, 0, len(m))
		for s := range m {
			l = append(l, s)
		}
		sort.Strings(l)
		sets[k] = l
	}
	res := shardResult{
		Property: r.Property, Shard: r.shard, NShard: r.nshard, Seed: r.seed, Tier: r.tier,
		Evaluations: r.evaluations, Nontrivial: r.nontrivial, ShapesCapped: r.shapesCapped,
		Counters: r.counters, Sets: sets, Extra: r.extra, Samples: r.samples,
		Inconclusive: r.inconclusive, Violations: r.nviol, Signatures: r.sigs,
		WallS: time.Since(r.start).Seconds(), Goroutines: runtime.NumGoroutine(),
	}
	b, err := json.MarshalIndent(res, "", " ")
	if err != nil {
		res.Samples = nil
		res.Extra = nil
		b, _ = json.MarshalIndent(res, "", " ")
	}
	os.WriteFile(base+".json", b, 0o666)
	if r.progress != nil {
		r.progress.Close()
	}
	if r.violFile != nil {
		r.violFile.Close()
	}
}
