// Package smtpd is a scripted, line-level SMTP / LMTP server for tests. It is
// meant to stand in as the "next hop" behind a real SMTP client and, unlike a
// library server, it can be told to misbehave at any protocol stage. It is
// written directly on net.Conn + bufio and depends only on the standard library.
//
// # Overview
//
//	srv, err := smtpd.New(smtpd.Config{
//		PIPELINING: true, EightBitMIME: true,
//		Script: func(ev smtpd.Event) *smtpd.Action {
//			if ev.Stage == smtpd.StageDot && ev.Conn == 1 {
//				return &smtpd.Action{DropBefore: true} // vanish before the final reply
//			}
//			return nil // default, conforming reply
//		},
//	})
//	defer srv.Close()
//	... point the client at srv.Addr() ...
//	for _, c := range srv.Transcript() { ... }
//
// New listens on 127.0.0.1:0 (or Config.ListenAddr) and serves every accepted
// connection on its own goroutine. Connections are numbered 1, 2, ... in accept
// order. Close closes the listener and all live connections and waits for the
// handlers. WaitIdle / ConnCount / TotalConns observe connection activity.
//
// # Script
//
// Config.Script is called synchronously, on the connection's goroutine, once
// for every protocol stage (see the Stage constants) after the command has been
// parsed and recorded but before anything is written back. Returning nil gives
// the default conforming reply. It is called concurrently for different
// connections, so it must be goroutine-safe. A returned Action can change the
// reply code / enhanced code / text (multi-line, arbitrary bytes), send raw
// bytes instead of a formatted reply, delay, block on a channel (Hold - a
// barrier), or drop the TCP connection before or after the reply. A zero
// Action.Code means "keep the default code", so &Action{Delay: d} or
// &Action{Hold: ch} only postpone the default reply.
//
// The state machine follows the code that was actually sent: a MAIL answered
// with a non-2xx code starts no transaction, a rejected RCPT is not part of
// the transaction, a DATA answered with a non-3xx code reads no payload, a
// final dot answered with a non-2xx code commits nothing.
//
// Stages in LMTP mode (Config.LMTP): after the payload has been read a single
// "dot" event is raised (nil action = carry on; Delay/Hold/DropBefore work as
// usual; an action with a Code or Raw is sent INSTEAD of the per-recipient
// replies, which is a protocol violation and commits nothing), followed by one
// "lmtp-rcpt-status" event per accepted RCPT, in RCPT order.
//
// # Transcript
//
// Transcript returns a deep copy of everything seen so far: per connection the
// command lines with the exact reply bytes, the TLS state, and per MAIL command
// a TxnRecord. "Committed at the next hop" is DEFINED as: the server actually
// wrote (Write on the socket returned without error) a 2xx reply to the final
// dot - per recipient for LMTP. TxnRecord.Committed / CommittedRcpts follow
// that definition; a DropBefore at the dot therefore leaves Committed false,
// a DropAfter with a 2xx leaves it true. A Raw reply counts as 2xx only if
// Action.Code says so or its first three bytes are the digits of a 2xx code.
// The write and its bookkeeping are atomic with respect to Transcript: once a
// client has read a reply, the transcript already shows the reply and its
// consequences. Transcript is safe to call at any time, including from inside
// Script and after Close.
//
// # DATA
//
// The payload is read strictly up to <CRLF>.<CRLF> (a "." line terminated by a
// bare LF, or following a bare LF, does NOT end the data), leading dots of
// CRLF-delimited lines are removed, and the bytes are otherwise kept exactly
// as received - bare CR / LF, NUL and 8-bit bytes included. The payload
// includes the CRLF that precedes the terminating dot. BDAT/CHUNKING, AUTH,
// VRFY etc. are not implemented (stage "unknown").
//
// # Exported API
//
//	func New(Config) (*Server, error)
//	func (*Server) Addr() string; Port() int; Close()
//	func (*Server) Transcript() []ConnRecord; Txns() []TxnRecord
//	func (*Server) WaitIdle(time.Duration) bool; ConnCount() int; TotalConns() int
//	type Config, Event, Action, Stage, ConnRecord, CmdRecord, TxnRecord, RcptRecord
package smtpd

import (
	"bufio"
	"bytes"
	"crypto/tls"
	"errors"
	"fmt"
	"io"
	"net"
	"strconv"
	"strings"
	"sync"
	"sync/atomic"
	"time"
)

// Stage names a point of the protocol at which Config.Script is consulted.
type Stage string

const (
	StageConnect        Stage = "connect"          // greeting, before any command
	StageEHLO           Stage = "ehlo"             // EHLO, HELO and LHLO (see Event.Verb)
	StageStartTLS       Stage = "starttls"         // STARTTLS command (before the handshake)
	StageMail           Stage = "mail"             // MAIL FROM
	StageRcpt           Stage = "rcpt"             // RCPT TO
	StageData           Stage = "data"             // DATA command (the 354 reply)
	StageDot            Stage = "dot"              // payload received, final reply pending
	StageLMTPRcptStatus Stage = "lmtp-rcpt-status" // LMTP: one per accepted recipient after the dot
	StageRset           Stage = "rset"
	StageNoop           Stage = "noop"
	StageQuit           Stage = "quit"
	StageUnknown        Stage = "unknown" // anything else (AUTH, VRFY, BDAT, garbage, ...)
)

// Config configures a Server. The zero value is a plain SMTP server that
// advertises only ENHANCEDSTATUSCODES.
type Config struct {
	// ListenAddr is the TCP address to listen on; default "127.0.0.1:0".
	ListenAddr string
	// LMTP switches to RFC 2033 behaviour: LHLO instead of EHLO/HELO (which
	// are then rejected with 500) and one reply per accepted RCPT after the
	// final dot.
	LMTP bool
	// Hostname is used in the greeting and the EHLO reply; default "smtpd.test".
	Hostname string

	// Capability switches: each adds its keyword to the EHLO/LHLO reply.
	// They are advertised whenever set (REQUIRETLS even outside TLS), except
	// STARTTLS which is advertised only while the session is not yet in TLS.
	// SMTPUTF8, REQUIRETLS, PIPELINING and EightBitMIME change nothing but the
	// advertisement: parameters and 8-bit data are accepted regardless, and
	// pipelined input is always processed sequentially.
	SMTPUTF8     bool
	STARTTLS     bool
	REQUIRETLS   bool
	PIPELINING   bool
	EightBitMIME bool
	// ExtraCaps are additional EHLO lines, verbatim (e.g. "SIZE 1000000", "DSN").
	ExtraCaps []string

	// TLS is the server-side configuration for STARTTLS and ImplicitTLS.
	TLS *tls.Config
	// ImplicitTLS performs a TLS handshake right after accept, before the
	// greeting.
	ImplicitTLS bool
	// StartTLSBroken: "" (working), "reply454" (STARTTLS is advertised but
	// answered with 454 4.7.0) or "handshake" (answered with 220, then the
	// client's handshake is answered with a fatal TLS alert and the
	// connection is closed).
	StartTLSBroken string
	// NoEHLO answers EHLO (and LHLO) with 502 so that clients fall back to HELO.
	NoEHLO bool

	// Script is consulted at every stage; see the package documentation.
	Script func(ev Event) *Action
}

// Event describes the protocol stage about to be answered.
type Event struct {
	Conn  int    // 1-based connection number in accept order
	Txn   int    // 1-based number of the latest MAIL command on this connection (0 before the first)
	Stage Stage  //
	Verb  string // upper-cased command verb ("EHLO", "HELO", "LHLO", "MAIL", ...; "" for connect, dot, lmtp-rcpt-status)
	Arg   string // raw argument text of the command (everything after "VERB ")
	Helo  string // name given in the last accepted HELO/EHLO/LHLO
	From  string // parsed reverse-path of the transaction (mail: of this command)
	// Rcpt is the parsed forward-path for rcpt and lmtp-rcpt-status.
	Rcpt string
	// RcptIndex is the 0-based index of the RCPT command (accepted or not)
	// within its transaction; for lmtp-rcpt-status it is the index of the RCPT
	// command that introduced the recipient.
	RcptIndex int
	// Params are the parsed ESMTP parameters of a MAIL or RCPT command.
	Params map[string]string
	// Rcpts lists the recipients accepted so far in the transaction.
	Rcpts []string
	TLS   bool // the command arrived over TLS
	// Data is the received payload for dot and lmtp-rcpt-status. It is shared
	// between events and must not be modified.
	Data       []byte
	RemoteAddr string
}

// Action is what Script wants done instead of the default reply.
type Action struct {
	// Code is the reply code; 0 keeps the default code (and, if Enh and Text
	// are empty too, the complete default reply).
	Code int
	// Enh is the enhanced status code, e.g. "4.2.0"; it is prefixed to every
	// text line. Empty = none (when Code is non-zero).
	Enh string
	// Text holds the reply text lines ("250-a", "250-b", "250 c"). Lines are
	// sent verbatim and may contain arbitrary bytes. Empty = a stock text.
	// For a 2xx EHLO reply Text[0] is the greeting line and Text[1:] are the
	// capability lines.
	Text []string
	// Raw, if non-nil, is written verbatim instead of a formatted reply. The
	// state machine then goes by Code or, if Code is 0, by the three leading
	// digits of Raw; if there are none the reply counts as code 0, i.e. as
	// not positive: nothing is accepted, started or committed by it.
	Raw []byte
	// Delay is slept before anything else happens.
	Delay time.Duration
	// Hold is waited on (after Delay) until it is closed or yields a value.
	// Server.Close aborts the wait and drops the connection.
	Hold <-chan struct{}
	// DropBefore closes the TCP connection without replying.
	DropBefore bool
	// DropAfter sends the reply, then closes the TCP connection.
	DropAfter bool
	// RST makes DropBefore/DropAfter abort the connection (SO_LINGER 0, the
	// peer sees ECONNRESET) instead of closing it gracefully. With DropAfter
	// the reply may then never reach the peer although it counts as written.
	RST bool
	// AbortPayloadAfter (> 0, meaningful for a 3xx reply at StageData only)
	// makes the server read that many payload bytes after the 354 and then
	// drop the connection (abortively with RST) in the middle of the message:
	// the client is still streaming the body when its writes start to fail.
	AbortPayloadAfter int
}

// ConnRecord is the transcript of one connection.
type ConnRecord struct {
	ID         int
	RemoteAddr string
	LocalAddr  string
	// TLS is true once a STARTTLS or implicit-TLS handshake has completed.
	TLS bool
	// TLSState is the server-side connection state (nil without TLS).
	TLSState *tls.ConnectionState
	// TLSError is the error text of a failed (or sabotaged) handshake.
	TLSError string
	// Helo is the name of the last accepted HELO/EHLO/LHLO.
	Helo       string
	HeloIsEHLO bool // that command was EHLO or LHLO
	Commands   []CmdRecord
	Txns       []TxnRecord
	// QuitSeen: a QUIT command was received.
	QuitSeen bool
	// ClosedByServer: the server ended the connection on its own initiative
	// (DropBefore/DropAfter, broken STARTTLS, Server.Close) - not set for the
	// regular close after QUIT or when the client went away first.
	ClosedByServer bool
	// Ended: the handler has finished and the connection is closed.
	Ended bool
	// EndReason is a short diagnostic: "quit", "client-eof", "drop-before",
	// "drop-after", "server-close", "tls-handshake", "read-error: ...", ...
	EndReason string
}

// CmdRecord is one command line (or pseudo stage) with the reply sent to it.
type CmdRecord struct {
	// Seq is a server-wide sequence number (order in which commands arrived,
	// across connections).
	Seq   uint64
	Stage Stage
	// Line is the command line without its line ending; "" for the greeting,
	// "." for the final dot (in LMTP mode that record normally has no reply),
	// "" for the lmtp-rcpt-status replies.
	Line string
	// ReplyCode is the code the server went by; 0 while no reply has been
	// written (pending, dropped before, write failure) and for a Raw reply
	// without a recognisable code (Reply and ReplyAt tell the two apart).
	ReplyCode int
	// Reply holds the exact bytes written, line endings included.
	Reply   string
	TLS     bool
	At      time.Time // when the command was read
	ReplyAt time.Time // when the reply had been written (zero if none)
}

// TxnRecord describes one MAIL command and what followed it. A record exists
// for every MAIL command, accepted or not.
type TxnRecord struct {
	Conn       int // ConnRecord.ID
	N          int // 1-based per connection
	TLS        bool
	MailArg    string
	From       string
	MailParams map[string]string
	MailCode   int // 0: no reply written
	Rcpts      []RcptRecord
	// DataCmdCode is the reply code to the DATA command (0: none).
	DataCmdCode int
	// DataReceived: the terminating <CRLF>.<CRLF> was seen.
	DataReceived bool
	// Data is the payload (partial if DataReceived is false).
	Data []byte
	// DotCode is the reply code to the final dot (SMTP; in LMTP mode only set
	// if a scripted single reply replaced the per-recipient replies).
	DotCode int
	// RcptDotCodes (LMTP): one per accepted recipient, in order; 0 for a
	// status that was never written.
	RcptDotCodes []int
	// Committed (SMTP): a 2xx reply to the final dot was actually written.
	// LMTP: at least one recipient was committed, i.e. len(CommittedRcpts) > 0.
	Committed bool
	// CommittedRcpts are the recipients for which a 2xx final reply was
	// actually written (SMTP: all accepted recipients if Committed).
	CommittedRcpts []string
	// Reset: the transaction was abandoned by RSET, a new HELO/EHLO, STARTTLS
	// or an accepted MAIL before it completed.
	Reset bool
}

// RcptRecord is one RCPT command of a transaction.
type RcptRecord struct {
	Arg    string
	Addr   string
	Params map[string]string
	Code   int // 0: no reply written
}

// AcceptedRcpts returns the addresses of the recipients answered with 2xx.
func (t *TxnRecord) AcceptedRcpts() []string {
	var out []string
	for _, r := range t.Rcpts {
		if is2xx(r.Code) {
			out = append(out, r.Addr)
		}
	}
	return out
}

// Server is a running scripted SMTP/LMTP server.
type Server struct {
	cfg  Config
	ln   net.Listener
	done chan struct{}
	wg   sync.WaitGroup
	seq  atomic.Uint64

	mu      sync.Mutex
	closed  bool
	nextID  int
	live    map[int]net.Conn // raw TCP connections, by ID
	active  int              // running handlers
	changed chan struct{}    // closed and replaced whenever active changes
	recs    []*connRec
}

// connRec is a connection's transcript with its lock. The lock is held by the
// handler while it writes a reply and books the consequences, so a reader
// never sees a reply that is on the wire but not yet in the record. Lock
// order: never hold Server.mu and connRec.mu together.
type connRec struct {
	mu sync.Mutex
	r  ConnRecord
}

// writeTimeout bounds a reply write (which happens under the record lock).
const writeTimeout = 30 * time.Second

// readPayloadAbortTimeout bounds the partial payload read of Action.AbortPayloadAfter.
const readPayloadAbortTimeout = 5 * time.Second

// New starts a server.
func New(cfg Config) (*Server, error) {
	switch cfg.StartTLSBroken {
	case "", "reply454", "handshake":
	default:
		return nil, fmt.Errorf("smtpd: unknown StartTLSBroken value %q", cfg.StartTLSBroken)
	}
	if cfg.ImplicitTLS && cfg.TLS == nil {
		return nil, errors.New("smtpd: ImplicitTLS requires Config.TLS")
	}
	if cfg.STARTTLS && cfg.TLS == nil && cfg.StartTLSBroken == "" {
		return nil, errors.New("smtpd: STARTTLS requires Config.TLS")
	}
	if cfg.Hostname == "" {
		cfg.Hostname = "smtpd.test"
	}
	if cfg.ListenAddr == "" {
		cfg.ListenAddr = "127.0.0.1:0"
	}
	cfg.ExtraCaps = append([]string(nil), cfg.ExtraCaps...)
	ln, err := net.Listen("tcp", cfg.ListenAddr)
	if err != nil {
		return nil, err
	}
	s := &Server{
		cfg:     cfg,
		ln:      ln,
		done:    make(chan struct{}),
		live:    map[int]net.Conn{},
		changed: make(chan struct{}),
	}
	s.wg.Add(1)
	go s.acceptLoop()
	return s, nil
}

// Addr returns the listening address as "host:port".
func (s *Server) Addr() string { return s.ln.Addr().String() }

// Port returns the listening TCP port.
func (s *Server) Port() int { return s.ln.Addr().(*net.TCPAddr).Port }

// Close closes the listener and all live connections, then waits for the
// connection handlers to return. It is idempotent.
func (s *Server) Close() {
	s.mu.Lock()
	if !s.closed {
		s.closed = true
		close(s.done)
		s.ln.Close()
		for _, c := range s.live {
			c.Close()
		}
	}
	s.mu.Unlock()
	s.wg.Wait()
}

// ConnCount returns the number of currently open connections.
func (s *Server) ConnCount() int {
	s.mu.Lock()
	defer s.mu.Unlock()
	return len(s.live)
}

// TotalConns returns the number of connections accepted so far.
func (s *Server) TotalConns() int {
	s.mu.Lock()
	defer s.mu.Unlock()
	return s.nextID
}

// WaitIdle waits until no connection handler is active and returns true, or
// returns false after the timeout. A connection the kernel has queued but the
// server has not accepted yet is not seen.
func (s *Server) WaitIdle(timeout time.Duration) bool {
	t := time.NewTimer(timeout)
	defer t.Stop()
	for {
		s.mu.Lock()
		n, ch := s.active, s.changed
		s.mu.Unlock()
		if n == 0 {
			return true
		}
		select {
		case <-ch:
		case <-t.C:
			return false
		}
	}
}

func (s *Server) snapshot() []*connRec {
	s.mu.Lock()
	defer s.mu.Unlock()
	return append([]*connRec(nil), s.recs...)
}

// Transcript returns a deep copy of the per-connection records, in accept
// order. Once a client has read a reply, the effects of that reply (codes,
// Committed, ...) are guaranteed to be visible here.
func (s *Server) Transcript() []ConnRecord {
	recs := s.snapshot()
	out := make([]ConnRecord, len(recs))
	for i, cr := range recs {
		cr.mu.Lock()
		out[i] = copyConnRecord(&cr.r)
		cr.mu.Unlock()
	}
	return out
}

// Txns returns a deep copy of all transaction records of all connections,
// ordered by connection, then by transaction number.
func (s *Server) Txns() []TxnRecord {
	var out []TxnRecord
	for _, cr := range s.snapshot() {
		cr.mu.Lock()
		for i := range cr.r.Txns {
			out = append(out, copyTxnRecord(&cr.r.Txns[i]))
		}
		cr.mu.Unlock()
	}
	return out
}

func copyParams(m map[string]string) map[string]string {
	if m == nil {
		return nil
	}
	out := make(map[string]string, len(m))
	for k, v := range m {
		out[k] = v
	}
	return out
}

func copyTxnRecord(t *TxnRecord) TxnRecord {
	c := *t
	c.MailParams = copyParams(t.MailParams)
	c.Rcpts = make([]RcptRecord, len(t.Rcpts))
	for i, r := range t.Rcpts {
		r.Params = copyParams(r.Params)
		c.Rcpts[i] = r
	}
	if t.Data != nil {
		c.Data = append([]byte{}, t.Data...)
	}
	c.RcptDotCodes = append([]int(nil), t.RcptDotCodes...)
	c.CommittedRcpts = append([]string(nil), t.CommittedRcpts...)
	return c
}

func copyConnRecord(r *ConnRecord) ConnRecord {
	c := *r
	if r.TLSState != nil {
		st := *r.TLSState
		c.TLSState = &st
	}
	c.Commands = append([]CmdRecord(nil), r.Commands...)
	c.Txns = make([]TxnRecord, len(r.Txns))
	for i := range r.Txns {
		c.Txns[i] = copyTxnRecord(&r.Txns[i])
	}
	return c
}

func (s *Server) acceptLoop() {
	defer s.wg.Done()
	for {
		nc, err := s.ln.Accept()
		if err != nil {
			select {
			case <-s.done:
				return
			default:
			}
			if errors.Is(err, net.ErrClosed) {
				return
			}
			time.Sleep(5 * time.Millisecond)
			continue
		}
		s.mu.Lock()
		if s.closed {
			s.mu.Unlock()
			nc.Close()
			return
		}
		s.nextID++
		rec := &connRec{r: ConnRecord{
			ID:         s.nextID,
			RemoteAddr: nc.RemoteAddr().String(),
			LocalAddr:  nc.LocalAddr().String(),
		}}
		s.recs = append(s.recs, rec)
		s.live[rec.r.ID] = nc
		s.active++
		s.bumpLocked()
		s.wg.Add(1)
		s.mu.Unlock()

		c := &conn{s: s, id: rec.r.ID, raw: nc, nc: nc, rec: rec, remote: rec.r.RemoteAddr, cur: -1}
		c.br = bufio.NewReaderSize(nc, 32*1024)
		go c.serve()
	}
}

func (s *Server) bumpLocked() {
	close(s.changed)
	s.changed = make(chan struct{})
}

// conn is the per-connection state. All fields are owned by the handler
// goroutine. rec.r is written only by the handler, and only under rec.mu; the
// handler itself may read it without the lock.
type conn struct {
	s      *Server
	id     int
	raw    net.Conn // the TCP connection
	nc     net.Conn // raw, or the TLS connection on top of it
	br     *bufio.Reader
	rec    *connRec
	remote string

	tls      bool
	helo     string
	txnN     int // number of MAIL commands seen
	cur      int // index into rec.r.Txns of the active transaction, -1 if none
	rcptIdx  int // RCPT commands seen in the active transaction
	rawClose bool
	ended    bool
	lastAct  *Action // the action applied to the command being answered
}

type reply struct {
	code int
	enh  string
	text []string
}

func is2xx(code int) bool { return code >= 200 && code <= 299 }
func is3xx(code int) bool { return code >= 300 && code <= 399 }

func stockText(code int) string {
	switch code / 100 {
	case 2:
		return "OK"
	case 3:
		return "Go ahead"
	case 4:
		return "Temporary failure (scripted)"
	case 5:
		return "Permanent failure (scripted)"
	}
	return "Scripted reply"
}

func formatReply(r reply) []byte {
	text := r.text
	if len(text) == 0 {
		text = []string{stockText(r.code)}
	}
	var b []byte
	for i, t := range text {
		b = strconv.AppendInt(b, int64(r.code), 10)
		if i == len(text)-1 {
			b = append(b, ' ')
		} else {
			b = append(b, '-')
		}
		if r.enh != "" {
			b = append(b, r.enh...)
			b = append(b, ' ')
		}
		b = append(b, t...)
		b = append(b, '\r', '\n')
	}
	return b
}

func leadingCode(raw []byte) int {
	if len(raw) < 3 {
		return 0
	}
	n := 0
	for _, ch := range raw[:3] {
		if ch < '0' || ch > '9' {
			return 0
		}
		n = n*10 + int(ch-'0')
	}
	return n
}

// upd mutates the connection record under its lock.
func (c *conn) upd(f func(r *ConnRecord)) {
	c.rec.mu.Lock()
	f(&c.rec.r)
	c.rec.mu.Unlock()
}

func (c *conn) serve() {
	defer c.s.wg.Done()
	defer c.finish()

	if c.s.cfg.ImplicitTLS {
		if !c.handshake() {
			return
		}
	}

	proto := "ESMTP"
	if c.s.cfg.LMTP {
		proto = "LMTP"
	}
	greet := reply{220, "", []string{c.s.cfg.Hostname + " " + proto + " verifkit smtpd ready"}}
	if _, stop := c.respond(Event{Stage: StageConnect}, "", greet, nil); stop {
		return
	}

	for {
		line, err := c.readLine()
		if err != nil {
			c.readFailed(err)
			return
		}
		if c.dispatch(line) {
			return
		}
	}
}

// finish runs when the handler returns.
func (c *conn) finish() {
	if !c.rawClose {
		c.nc.Close() // for TLS: sends close_notify, then closes the TCP connection
	}
	c.upd(func(r *ConnRecord) {
		r.Ended = true
		if r.EndReason == "" {
			r.EndReason = "ended"
		}
	})
	s := c.s
	s.mu.Lock()
	delete(s.live, c.id)
	s.active--
	s.bumpLocked()
	s.mu.Unlock()
}

// end notes why the connection ends; the first reason wins.
func (c *conn) end(reason string, byServer bool) {
	if c.ended {
		return
	}
	c.ended = true
	c.upd(func(r *ConnRecord) {
		r.EndReason = reason
		r.ClosedByServer = byServer
	})
}

// drop closes the TCP connection abruptly (no TLS close_notify).
func (c *conn) drop(rst bool, reason string) {
	c.end(reason, true)
	if rst {
		if tc, ok := c.raw.(*net.TCPConn); ok {
			tc.SetLinger(0)
		}
	}
	c.raw.Close()
	c.rawClose = true
}

func (c *conn) closing() bool {
	select {
	case <-c.s.done:
		return true
	default:
		return false
	}
}

func (c *conn) readFailed(err error) {
	switch {
	case c.closing() || errors.Is(err, net.ErrClosed):
		c.end("server-close", true)
	case errors.Is(err, io.EOF):
		c.end("client-eof", false)
	default:
		c.end("read-error: "+err.Error(), false)
	}
}

func (c *conn) readLine() (string, error) {
	b, err := c.br.ReadBytes('\n')
	if err != nil {
		return "", err
	}
	b = b[:len(b)-1]
	if n := len(b); n > 0 && b[n-1] == '\r' {
		b = b[:n-1]
	}
	return string(b), nil
}

// handshake upgrades the connection to TLS (server side).
func (c *conn) handshake() bool {
	tc := tls.Server(c.nc, c.s.cfg.TLS)
	c.raw.SetDeadline(time.Now().Add(30 * time.Second))
	err := tc.Handshake()
	c.raw.SetDeadline(time.Time{})
	if err != nil {
		c.upd(func(r *ConnRecord) { r.TLSError = err.Error() })
		if c.closing() {
			c.end("server-close", true)
		} else {
			c.end("tls-handshake", false)
		}
		return false
	}
	st := tc.ConnectionState()
	c.nc = tc
	c.br = bufio.NewReaderSize(tc, 32*1024)
	c.tls = true
	c.upd(func(r *ConnRecord) {
		r.TLS = true
		r.TLSState = &st
	})
	return true
}

// sabotageHandshake waits for the ClientHello, answers with a fatal
// handshake_failure alert and closes the connection.
func (c *conn) sabotageHandshake() {
	c.raw.SetDeadline(time.Now().Add(5 * time.Second))
	buf := make([]byte, 4096)
	c.nc.Read(buf)
	c.nc.Write([]byte{0x15, 0x03, 0x03, 0x00, 0x02, 0x02, 0x28})
	c.upd(func(r *ConnRecord) { r.TLSError = "handshake sabotaged (StartTLSBroken=handshake)" })
	c.drop(false, "tls-handshake")
}

func (c *conn) beginCmd(stage Stage, line string) (idx int) {
	c.upd(func(r *ConnRecord) {
		r.Commands = append(r.Commands, CmdRecord{
			Seq: c.s.seq.Add(1), Stage: stage, Line: line, TLS: c.tls, At: time.Now(),
		})
		idx = len(r.Commands) - 1
	})
	return idx
}

// pause waits for d and then for hold; false means the server is closing.
func (c *conn) pause(d time.Duration, hold <-chan struct{}) bool {
	if d > 0 {
		t := time.NewTimer(d)
		select {
		case <-t.C:
		case <-c.s.done:
			t.Stop()
			return false
		}
	}
	if hold != nil {
		select {
		case <-hold:
		case <-c.s.done:
			return false
		}
	}
	return true
}

// fill completes the connection-level fields of an event.
func (c *conn) fill(ev *Event) {
	ev.Conn = c.id
	ev.TLS = c.tls
	ev.Txn = c.txnN
	ev.Helo = c.helo
	ev.RemoteAddr = c.remote
}

func (c *conn) script(ev Event) *Action {
	if c.s.cfg.Script == nil {
		return nil
	}
	return c.s.cfg.Script(ev)
}

// sentFunc books the consequences of a reply in the record. It runs under the
// record lock, right after the reply has been written successfully, with the
// code the state machine goes by.
type sentFunc func(r *ConnRecord, code int)

// respond records the command, consults the script for ev and writes the
// resulting reply. It returns the code the state machine must go by - 0 if no
// reply was written - and whether the connection is finished.
func (c *conn) respond(ev Event, line string, def reply, onSent sentFunc) (code int, stop bool) {
	c.fill(&ev)
	idx := c.beginCmd(ev.Stage, line)
	return c.apply(c.script(ev), idx, def, onSent)
}

// apply carries out act (nil: the default reply def) for the command recorded
// at index idx.
func (c *conn) apply(act *Action, idx int, def reply, onSent sentFunc) (code int, stop bool) {
	rp := def
	var out []byte
	c.lastAct = act
	if act != nil {
		if !c.pause(act.Delay, act.Hold) {
			c.drop(false, "server-close")
			return 0, true
		}
		if act.DropBefore {
			c.drop(act.RST, "drop-before")
			return 0, true
		}
		if act.Code != 0 || act.Enh != "" || len(act.Text) > 0 {
			if act.Code != 0 {
				rp.code = act.Code
			}
			rp.enh = act.Enh
			switch {
			case len(act.Text) > 0:
				rp.text = act.Text
			case rp.code != def.code:
				rp.text = nil
			}
		}
		if act.Raw != nil {
			out = act.Raw
			if act.Code == 0 {
				// Three leading digits or nothing: garbage is never taken
				// for a positive reply.
				rp.code = leadingCode(act.Raw)
			}
		}
	}
	if out == nil {
		out = formatReply(rp)
	}

	// Write and book under the record lock: whoever has seen the reply on the
	// wire will also see it - and what it means - in the transcript.
	c.rec.mu.Lock()
	c.raw.SetWriteDeadline(time.Now().Add(writeTimeout))
	_, err := c.nc.Write(out)
	c.raw.SetWriteDeadline(time.Time{})
	if err == nil {
		cm := &c.rec.r.Commands[idx]
		cm.ReplyCode = rp.code
		cm.Reply = string(out)
		cm.ReplyAt = time.Now()
		if onSent != nil {
			onSent(&c.rec.r, rp.code)
		}
	}
	c.rec.mu.Unlock()
	if err != nil {
		if c.closing() {
			c.end("server-close", true)
		} else {
			c.end("write-error: "+err.Error(), false)
		}
		return 0, true
	}

	if act != nil && act.DropAfter {
		c.drop(act.RST, "drop-after")
		return rp.code, true
	}
	return rp.code, false
}

// txn returns the active transaction record (for reading).
func (c *conn) txn() *TxnRecord {
	if c.cur < 0 {
		return nil
	}
	return &c.rec.r.Txns[c.cur]
}

// markReset flags the active transaction as abandoned; to be called under the
// record lock (from a sentFunc). forget() completes it on the handler side.
func (c *conn) markReset(r *ConnRecord) {
	if c.cur >= 0 {
		r.Txns[c.cur].Reset = true
	}
}

// forget leaves the active transaction.
func (c *conn) forget() {
	c.cur = -1
	c.rcptIdx = 0
}

func (c *conn) accepted() []string {
	t := c.txn()
	if t == nil {
		return nil
	}
	return t.AcceptedRcpts()
}

func (c *conn) from() string {
	if t := c.txn(); t != nil {
		return t.From
	}
	return ""
}

func splitVerb(line string) (verb, arg string) {
	if i := strings.IndexByte(line, ' '); i >= 0 {
		return strings.ToUpper(line[:i]), line[i+1:]
	}
	return strings.ToUpper(line), ""
}

// dispatch handles one command line; it returns true when the connection is done.
func (c *conn) dispatch(line string) bool {
	verb, arg := splitVerb(line)
	switch verb {
	case "EHLO", "HELO", "LHLO":
		return c.cmdHello(line, verb, arg)
	case "STARTTLS":
		return c.cmdStartTLS(line, arg)
	case "MAIL":
		return c.cmdMail(line, arg)
	case "RCPT":
		return c.cmdRcpt(line, arg)
	case "DATA":
		return c.cmdData(line, arg)
	case "RSET":
		code, stop := c.respond(Event{Stage: StageRset, Verb: verb, Arg: arg, From: c.from(), Rcpts: c.accepted()},
			line, reply{250, "2.0.0", []string{"Flushed"}},
			func(r *ConnRecord, code int) {
				if is2xx(code) {
					c.markReset(r)
				}
			})
		if is2xx(code) {
			c.forget()
		}
		return stop
	case "NOOP":
		_, stop := c.respond(Event{Stage: StageNoop, Verb: verb, Arg: arg, From: c.from(), Rcpts: c.accepted()},
			line, reply{250, "2.0.0", []string{"OK"}}, nil)
		return stop
	case "QUIT":
		c.upd(func(r *ConnRecord) { r.QuitSeen = true })
		code, stop := c.respond(Event{Stage: StageQuit, Verb: verb, Arg: arg, From: c.from(), Rcpts: c.accepted()},
			line, reply{221, "2.0.0", []string{"Bye"}}, nil)
		if stop {
			return true
		}
		if is2xx(code) {
			c.end("quit", false)
			return true
		}
		return false
	}

	def := reply{500, "5.5.2", []string{"Command not recognized"}}
	switch verb {
	case "AUTH", "VRFY", "EXPN", "HELP", "BDAT", "ETRN", "TURN":
		def = reply{502, "5.5.1", []string{"Command not implemented"}}
	}
	_, stop := c.respond(Event{Stage: StageUnknown, Verb: verb, Arg: arg, From: c.from(), Rcpts: c.accepted()}, line, def, nil)
	return stop
}

func (c *conn) ehloLines() []string {
	cfg := &c.s.cfg
	lines := []string{cfg.Hostname}
	if cfg.PIPELINING {
		lines = append(lines, "PIPELINING")
	}
	if cfg.EightBitMIME {
		lines = append(lines, "8BITMIME")
	}
	if cfg.SMTPUTF8 {
		lines = append(lines, "SMTPUTF8")
	}
	if cfg.STARTTLS && !c.tls {
		lines = append(lines, "STARTTLS")
	}
	if cfg.REQUIRETLS {
		lines = append(lines, "REQUIRETLS")
	}
	lines = append(lines, "ENHANCEDSTATUSCODES")
	lines = append(lines, cfg.ExtraCaps...)
	return lines
}

func (c *conn) cmdHello(line, verb, arg string) bool {
	cfg := &c.s.cfg
	var def reply
	switch {
	case cfg.LMTP && verb != "LHLO":
		def = reply{500, "5.5.1", []string{"This is LMTP, use LHLO"}}
	case !cfg.LMTP && verb == "LHLO":
		def = reply{500, "5.5.1", []string{"This is SMTP, use EHLO"}}
	case cfg.NoEHLO && verb != "HELO":
		def = reply{502, "5.5.1", []string{verb + " not implemented"}}
	case strings.TrimSpace(arg) == "":
		def = reply{501, "5.5.4", []string{"Hostname required"}}
	case verb == "HELO":
		def = reply{250, "", []string{cfg.Hostname}}
	default:
		def = reply{250, "", c.ehloLines()}
	}
	name := strings.TrimSpace(arg)
	code, stop := c.respond(Event{Stage: StageEHLO, Verb: verb, Arg: arg}, line, def,
		func(r *ConnRecord, code int) {
			if is2xx(code) {
				c.markReset(r)
				r.Helo = name
				r.HeloIsEHLO = verb != "HELO"
			}
		})
	if is2xx(code) {
		c.forget()
		c.helo = name
	}
	return stop
}

func (c *conn) cmdStartTLS(line, arg string) bool {
	cfg := &c.s.cfg
	var def reply
	switch {
	case c.tls:
		def = reply{503, "5.5.1", []string{"Already running in TLS"}}
	case !cfg.STARTTLS:
		def = reply{502, "5.5.1", []string{"STARTTLS not offered"}}
	case cfg.StartTLSBroken == "reply454":
		def = reply{454, "4.7.0", []string{"TLS not available due to temporary reason"}}
	default:
		def = reply{220, "2.0.0", []string{"Ready to start TLS"}}
	}
	inTLS := c.tls
	code, stop := c.respond(Event{Stage: StageStartTLS, Verb: "STARTTLS", Arg: arg}, line, def,
		func(r *ConnRecord, code int) {
			if is2xx(code) && !inTLS {
				c.markReset(r)
			}
		})
	if stop {
		return true
	}
	if !is2xx(code) || c.tls {
		return false
	}
	// The client now starts a handshake; whatever was pipelined in plaintext
	// behind STARTTLS is discarded together with the old reader.
	c.forget()
	c.helo = ""
	if cfg.StartTLSBroken == "handshake" || cfg.TLS == nil {
		c.sabotageHandshake()
		return true
	}
	// A failed genuine handshake is the client's doing: ClosedByServer stays
	// false, ConnRecord.TLSError has the reason.
	return !c.handshake()
}

func (c *conn) cmdMail(line, arg string) bool {
	c.txnN++
	from, params, ok := parsePath(arg, "FROM")
	var me int
	c.upd(func(r *ConnRecord) {
		r.Txns = append(r.Txns, TxnRecord{
			Conn: c.id, N: c.txnN, TLS: c.tls, MailArg: arg, From: from, MailParams: params,
		})
		me = len(r.Txns) - 1
	})

	var def reply
	switch {
	case !ok:
		def = reply{501, "5.5.4", []string{"Syntax: MAIL FROM:<address> [parameters]"}}
	case c.helo == "":
		def = reply{503, "5.5.1", []string{"Say hello first"}}
	case c.cur >= 0:
		def = reply{503, "5.5.1", []string{"Nested MAIL command"}}
	default:
		def = reply{250, "2.1.0", []string{"Sender OK"}}
	}
	code, stop := c.respond(Event{Stage: StageMail, Verb: "MAIL", Arg: arg, From: from, Params: copyParams(params)}, line, def,
		func(r *ConnRecord, code int) {
			r.Txns[me].MailCode = code
			if is2xx(code) {
				c.markReset(r) // only possible if the script accepted a nested MAIL
			}
		})
	if is2xx(code) {
		c.forget()
		c.cur = me
	}
	return stop
}

func (c *conn) cmdRcpt(line, arg string) bool {
	addr, params, ok := parsePath(arg, "TO")
	idx := 0
	ri := -1
	if c.cur >= 0 {
		idx = c.rcptIdx
		c.rcptIdx++
		c.upd(func(r *ConnRecord) {
			t := &r.Txns[c.cur]
			t.Rcpts = append(t.Rcpts, RcptRecord{Arg: arg, Addr: addr, Params: params})
			ri = len(t.Rcpts) - 1
		})
	}
	var def reply
	switch {
	case !ok:
		def = reply{501, "5.5.4", []string{"Syntax: RCPT TO:<address> [parameters]"}}
	case c.cur < 0:
		def = reply{503, "5.5.1", []string{"Need MAIL before RCPT"}}
	default:
		def = reply{250, "2.1.5", []string{"Recipient OK"}}
	}
	// Rcpts in the event: accepted before this command.
	ev := Event{Stage: StageRcpt, Verb: "RCPT", Arg: arg, From: c.from(), Rcpt: addr, RcptIndex: idx,
		Params: copyParams(params), Rcpts: c.accepted()}
	_, stop := c.respond(ev, line, def, func(r *ConnRecord, code int) {
		if ri >= 0 {
			r.Txns[c.cur].Rcpts[ri].Code = code
		}
	})
	return stop
}

func (c *conn) cmdData(line, arg string) bool {
	var def reply
	switch {
	case c.cur < 0:
		def = reply{503, "5.5.1", []string{"Need MAIL before DATA"}}
	case len(c.accepted()) == 0:
		def = reply{503, "5.5.1", []string{"Need RCPT before DATA"}}
	default:
		def = reply{354, "", []string{"End data with <CR><LF>.<CR><LF>"}}
	}
	code, stop := c.respond(Event{Stage: StageData, Verb: "DATA", Arg: arg, From: c.from(), Rcpts: c.accepted()}, line, def,
		func(r *ConnRecord, code int) {
			if c.cur >= 0 {
				r.Txns[c.cur].DataCmdCode = code
			}
		})
	if stop {
		return true
	}
	if !is3xx(code) {
		return false
	}
	if c.cur < 0 {
		// The script forced a 354 outside a transaction: the client will send
		// a payload, so account for it in an implicit transaction record.
		c.txnN++
		c.upd(func(r *ConnRecord) {
			r.Txns = append(r.Txns, TxnRecord{Conn: c.id, N: c.txnN, TLS: c.tls, DataCmdCode: code})
			c.cur = len(r.Txns) - 1
		})
	}

	if a := c.lastAct; a != nil && a.AbortPayloadAfter > 0 {
		c.raw.SetReadDeadline(time.Now().Add(readPayloadAbortTimeout))
		io.CopyN(io.Discard, c.br, int64(a.AbortPayloadAfter))
		c.raw.SetReadDeadline(time.Time{})
		c.drop(a.RST, "abort-mid-payload")
		return true
	}

	payload, err := readData(c.br)
	c.upd(func(r *ConnRecord) {
		t := &r.Txns[c.cur]
		t.Data = append([]byte{}, payload...)
		t.DataReceived = err == nil
	})
	if err != nil {
		c.readFailed(err)
		return true
	}
	if c.s.cfg.LMTP {
		return c.finishLMTP(payload)
	}
	return c.finishSMTP(payload)
}

func (c *conn) finishSMTP(payload []byte) bool {
	me := c.cur
	rcpts := c.accepted()
	def := reply{250, "2.0.0", []string{fmt.Sprintf("OK: queued as %d-%d", c.id, c.txnN)}}
	_, stop := c.respond(Event{Stage: StageDot, From: c.from(), Rcpts: rcpts, Data: payload}, ".", def,
		func(r *ConnRecord, code int) {
			t := &r.Txns[me]
			t.DotCode = code
			if is2xx(code) {
				t.Committed = true
				t.CommittedRcpts = append([]string(nil), rcpts...)
			}
		})
	c.forget()
	return stop
}

func (c *conn) finishLMTP(payload []byte) bool {
	me := c.cur
	from := c.from()
	rcpts := c.accepted()
	defer c.forget()

	// The "dot" stage has no reply of its own in LMTP: it is recorded and the
	// script consulted, but by default nothing is written.
	ev := Event{Stage: StageDot, From: from, Rcpts: rcpts, Data: payload}
	c.fill(&ev)
	idx := c.beginCmd(StageDot, ".")
	if act := c.script(ev); act != nil {
		if act.Code != 0 || act.Raw != nil || act.DropBefore || act.DropAfter {
			// A single reply in place of the per-recipient ones, or a drop:
			// nothing is committed.
			_, stop := c.apply(act, idx, reply{250, "2.0.0", []string{"OK"}},
				func(r *ConnRecord, code int) { r.Txns[me].DotCode = code })
			return stop
		}
		if !c.pause(act.Delay, act.Hold) {
			c.drop(false, "server-close")
			return true
		}
	}

	type acc struct {
		addr string
		idx  int
	}
	var list []acc
	for i, r := range c.rec.r.Txns[me].Rcpts {
		if is2xx(r.Code) {
			list = append(list, acc{r.Addr, i})
		}
	}
	c.upd(func(r *ConnRecord) { r.Txns[me].RcptDotCodes = make([]int, len(list)) })

	for k, a := range list {
		def := reply{250, "2.1.5", []string{"<" + a.addr + "> delivered"}}
		_, stop := c.respond(Event{Stage: StageLMTPRcptStatus, From: from, Rcpt: a.addr, RcptIndex: a.idx,
			Rcpts: rcpts, Data: payload}, "", def,
			func(r *ConnRecord, code int) {
				t := &r.Txns[me]
				t.RcptDotCodes[k] = code
				if is2xx(code) {
					t.Committed = true
					t.CommittedRcpts = append(t.CommittedRcpts, a.addr)
				}
			})
		if stop {
			return true
		}
	}
	return false
}

// readData reads a DATA payload up to <CRLF>.<CRLF> and undoes dot-stuffing.
// Only CRLF counts as a line ending for both purposes.
func readData(br *bufio.Reader) ([]byte, error) {
	var buf bytes.Buffer
	lineStart := true // the next bytes follow a CRLF (or start the payload)
	cont := false     // the next bytes continue a line longer than the read buffer
	prevCR := false   // ... whose last byte so far was CR
	for {
		line, err := br.ReadSlice('\n')
		if err == bufio.ErrBufferFull {
			if lineStart && line[0] == '.' {
				line = line[1:]
			}
			buf.Write(line)
			lineStart, cont = false, true
			prevCR = len(line) > 0 && line[len(line)-1] == '\r'
			continue
		}
		if err != nil {
			buf.Write(line)
			return buf.Bytes(), err
		}
		crlf := (len(line) >= 2 && line[len(line)-2] == '\r') || (len(line) == 1 && cont && prevCR)
		if lineStart && line[0] == '.' {
			if crlf && len(line) == 3 {
				return buf.Bytes(), nil
			}
			line = line[1:]
		}
		buf.Write(line)
		lineStart, cont = crlf, false
	}
}

// parsePath parses the argument of MAIL ("FROM:<a> K=V ...") or RCPT
// ("TO:<a> ...") leniently.
func parsePath(arg, kw string) (addr string, params map[string]string, ok bool) {
	s := strings.TrimLeft(arg, " \t")
	if len(s) < len(kw) || !strings.EqualFold(s[:len(kw)], kw) {
		return "", nil, false
	}
	s = strings.TrimLeft(s[len(kw):], " \t")
	if !strings.HasPrefix(s, ":") {
		return "", nil, false
	}
	s = strings.TrimLeft(s[1:], " \t")
	var rest string
	if strings.HasPrefix(s, "<") {
		end := -1
		inQuote, esc := false, false
	scan:
		for i := 1; i < len(s); i++ {
			ch := s[i]
			switch {
			case esc:
				esc = false
			case ch == '\\':
				esc = true
			case ch == '"':
				inQuote = !inQuote
			case ch == '>' && !inQuote:
				end = i
				break scan
			}
		}
		if end < 0 {
			return "", nil, false
		}
		addr, rest = s[1:end], s[end+1:]
	} else if i := strings.IndexAny(s, " \t"); i >= 0 {
		addr, rest = s[:i], s[i:]
	} else {
		addr = s
	}
	// Strip an RFC 821 source route: <@a,@b:user@c>.
	if strings.HasPrefix(addr, "@") {
		if i := strings.IndexByte(addr, ':'); i >= 0 {
			addr = addr[i+1:]
		}
	}
	params = map[string]string{}
	for _, f := range strings.Fields(rest) {
		k, v, _ := strings.Cut(f, "=")
		params[strings.ToUpper(k)] = v
	}
	return addr, params, true
}
