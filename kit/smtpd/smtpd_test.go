package smtpd

import (
	"bufio"
	"bytes"
	"crypto/tls"
	"errors"
	"fmt"
	"io"
	"net"
	"net/smtp"
	"net/textproto"
	"reflect"
	"strconv"
	"strings"
	"sync"
	"syscall"
	"testing"
	"time"

	"verifkit/certs"
)

// ---------------------------------------------------------------- helpers

func newServer(t *testing.T, cfg Config) *Server {
	t.Helper()
	s, err := New(cfg)
	if err != nil {
		t.Fatalf("New: %v", err)
	}
	t.Cleanup(s.Close)
	return s
}

type rawClient struct {
	t  *testing.T
	c  net.Conn
	br *bufio.Reader
}

func dialRaw(t *testing.T, s *Server) *rawClient {
	t.Helper()
	c, err := net.Dial("tcp", s.Addr())
	if err != nil {
		t.Fatalf("dial: %v", err)
	}
	t.Cleanup(func() { c.Close() })
	return &rawClient{t: t, c: c, br: bufio.NewReader(c)}
}

func (r *rawClient) write(b []byte) {
	r.t.Helper()
	r.c.SetWriteDeadline(time.Now().Add(10 * time.Second))
	if _, err := r.c.Write(b); err != nil {
		r.t.Fatalf("write: %v", err)
	}
}

func (r *rawClient) send(line string) { r.t.Helper(); r.write([]byte(line + "\r\n")) }

// readReply reads one (possibly multi-line) reply.
func (r *rawClient) readReply() (code int, lines []string, err error) {
	r.c.SetReadDeadline(time.Now().Add(10 * time.Second))
	for {
		l, e := r.br.ReadString('\n')
		if e != nil {
			return 0, lines, e
		}
		l = strings.TrimSuffix(strings.TrimSuffix(l, "\n"), "\r")
		if len(l) < 4 {
			return 0, lines, fmt.Errorf("short reply line %q", l)
		}
		n, e := strconv.Atoi(l[:3])
		if e != nil {
			return 0, lines, fmt.Errorf("bad reply line %q", l)
		}
		lines = append(lines, l[4:])
		if l[3] == ' ' {
			return n, lines, nil
		}
		if l[3] != '-' {
			return 0, lines, fmt.Errorf("bad separator in %q", l)
		}
	}
}

func (r *rawClient) expect(code int) []string {
	r.t.Helper()
	got, lines, err := r.readReply()
	if err != nil {
		r.t.Fatalf("reading reply (want %d): %v (so far %q)", code, err, lines)
	}
	if got != code {
		r.t.Fatalf("reply code %d %q, want %d", got, lines, code)
	}
	return lines
}

func (r *rawClient) cmd(line string, code int) []string {
	r.t.Helper()
	r.send(line)
	return r.expect(code)
}

func (r *rawClient) expectClosed() error {
	r.t.Helper()
	r.c.SetReadDeadline(time.Now().Add(10 * time.Second))
	b, err := r.br.ReadByte()
	if err == nil {
		r.t.Fatalf("expected closed connection, got byte %q", b)
	}
	var ne net.Error
	if errors.As(err, &ne) && ne.Timeout() {
		r.t.Fatalf("expected closed connection, got timeout")
	}
	return err
}

func waitIdle(t *testing.T, s *Server) {
	t.Helper()
	if !s.WaitIdle(10 * time.Second) {
		t.Fatalf("server not idle; open conns: %d", s.ConnCount())
	}
}

func oneConn(t *testing.T, s *Server) ConnRecord {
	t.Helper()
	tr := s.Transcript()
	if len(tr) != 1 {
		t.Fatalf("want 1 connection in transcript, have %d", len(tr))
	}
	return tr[0]
}

// stuff applies SMTP dot-stuffing the way a careful raw client would: only
// after CRLF (and at the start).
func stuff(p []byte) []byte {
	var out []byte
	lineStart := true
	for i := 0; i < len(p); i++ {
		if lineStart && p[i] == '.' {
			out = append(out, '.')
		}
		out = append(out, p[i])
		lineStart = p[i] == '\n' && i > 0 && p[i-1] == '\r'
	}
	return out
}

// scriptFor builds a Script that answers the given stage with the action.
func scriptFor(stage Stage, a *Action) func(Event) *Action {
	return func(ev Event) *Action {
		if ev.Stage == stage {
			return a
		}
		return nil
	}
}

type tlsKit struct {
	root   *certs.CA
	srvCfg *tls.Config
	cliCfg *tls.Config
}

var (
	tlsOnce sync.Once
	tlsVal  tlsKit
)

func testTLS() tlsKit {
	tlsOnce.Do(func() {
		root := certs.NewCA("smtpd test root")
		inter := root.Intermediate("smtpd test intermediate")
		leaf := inter.Leaf(certs.LeafOpts{DNSNames: []string{"mx.smtpd.test"}})
		tlsVal = tlsKit{
			root:   root,
			srvCfg: &tls.Config{Certificates: []tls.Certificate{leaf.TLSCertificate(inter)}},
			cliCfg: &tls.Config{RootCAs: root.Pool(), ServerName: "mx.smtpd.test"},
		}
	})
	return tlsVal
}

// ---------------------------------------------------------------- tests

func TestRawSessionAndTranscript(t *testing.T) {
	var mu sync.Mutex
	var events []Event
	s := newServer(t, Config{
		Hostname: "mx.next.test", PIPELINING: true, EightBitMIME: true, SMTPUTF8: true, REQUIRETLS: true,
		ExtraCaps: []string{"SIZE 1000000"},
		Script: func(ev Event) *Action {
			mu.Lock()
			events = append(events, ev)
			mu.Unlock()
			return nil
		},
	})
	if s.Port() == 0 || !strings.HasPrefix(s.Addr(), "127.0.0.1:") || !strings.HasSuffix(s.Addr(), ":"+strconv.Itoa(s.Port())) {
		t.Fatalf("Addr/Port: %q %d", s.Addr(), s.Port())
	}

	c := dialRaw(t, s)
	g := c.expect(220)
	if !strings.HasPrefix(g[0], "mx.next.test ESMTP") {
		t.Fatalf("greeting %q", g)
	}
	caps := c.cmd("EHLO client.test", 250)
	want := []string{"mx.next.test", "PIPELINING", "8BITMIME", "SMTPUTF8", "REQUIRETLS", "ENHANCEDSTATUSCODES", "SIZE 1000000"}
	if !reflect.DeepEqual(caps, want) {
		t.Fatalf("EHLO lines %q, want %q", caps, want)
	}
	c.cmd("MAIL FROM:<a@src.test> BODY=8BITMIME SIZE=123 ret=HDRS ENVID=xyz REQUIRETLS SMTPUTF8", 250)
	c.cmd("RCPT TO:<b@dst.test> NOTIFY=SUCCESS,FAILURE ORCPT=rfc822;b@dst.test", 250)
	c.cmd("rcpt to: <c@dst.test>", 250)
	c.cmd("DATA", 354)
	c.write([]byte("Subject: x\r\n\r\nbody\r\n.\r\n"))
	l := c.expect(250)
	if !strings.HasPrefix(l[0], "2.0.0 OK") {
		t.Fatalf("dot reply %q", l)
	}
	c.cmd("NOOP", 250)
	c.cmd("QUIT", 221)
	c.expectClosed()
	waitIdle(t, s)

	cr := oneConn(t, s)
	if cr.ID != 1 || cr.TLS || cr.TLSState != nil || cr.Helo != "client.test" || !cr.HeloIsEHLO ||
		!cr.Ended || cr.ClosedByServer || !cr.QuitSeen || cr.EndReason != "quit" {
		t.Fatalf("conn record: %+v", cr)
	}
	var lines []string
	var codes []int
	for _, cm := range cr.Commands {
		lines = append(lines, cm.Line)
		codes = append(codes, cm.ReplyCode)
		if cm.TLS || cm.At.IsZero() || cm.ReplyAt.IsZero() || cm.Seq == 0 {
			t.Fatalf("cmd record incomplete: %+v", cm)
		}
	}
	wantLines := []string{"", "EHLO client.test",
		"MAIL FROM:<a@src.test> BODY=8BITMIME SIZE=123 ret=HDRS ENVID=xyz REQUIRETLS SMTPUTF8",
		"RCPT TO:<b@dst.test> NOTIFY=SUCCESS,FAILURE ORCPT=rfc822;b@dst.test", "rcpt to: <c@dst.test>",
		"DATA", ".", "NOOP", "QUIT"}
	if !reflect.DeepEqual(lines, wantLines) {
		t.Fatalf("command lines %q", lines)
	}
	if !reflect.DeepEqual(codes, []int{220, 250, 250, 250, 250, 354, 250, 250, 221}) {
		t.Fatalf("reply codes %v", codes)
	}
	if r := cr.Commands[1].Reply; !strings.HasPrefix(r, "250-mx.next.test\r\n250-PIPELINING\r\n") || !strings.HasSuffix(r, "250 SIZE 1000000\r\n") {
		t.Fatalf("EHLO raw reply %q", r)
	}
	if r := cr.Commands[5].Reply; r != "354 End data with <CR><LF>.<CR><LF>\r\n" {
		t.Fatalf("DATA raw reply %q", r)
	}

	if len(cr.Txns) != 1 {
		t.Fatalf("txns: %d", len(cr.Txns))
	}
	tx := cr.Txns[0]
	wantParams := map[string]string{"BODY": "8BITMIME", "SIZE": "123", "RET": "HDRS", "ENVID": "xyz", "REQUIRETLS": "", "SMTPUTF8": ""}
	if tx.Conn != 1 || tx.N != 1 || tx.TLS || tx.From != "a@src.test" || tx.MailCode != 250 ||
		tx.MailArg != "FROM:<a@src.test> BODY=8BITMIME SIZE=123 ret=HDRS ENVID=xyz REQUIRETLS SMTPUTF8" ||
		!reflect.DeepEqual(tx.MailParams, wantParams) {
		t.Fatalf("txn mail part: %+v", tx)
	}
	if len(tx.Rcpts) != 2 || tx.Rcpts[0].Addr != "b@dst.test" || tx.Rcpts[1].Addr != "c@dst.test" ||
		tx.Rcpts[0].Code != 250 || tx.Rcpts[1].Arg != "to: <c@dst.test>" ||
		!reflect.DeepEqual(tx.Rcpts[0].Params, map[string]string{"NOTIFY": "SUCCESS,FAILURE", "ORCPT": "rfc822;b@dst.test"}) {
		t.Fatalf("txn rcpts: %+v", tx.Rcpts)
	}
	if tx.DataCmdCode != 354 || !tx.DataReceived || string(tx.Data) != "Subject: x\r\n\r\nbody\r\n" ||
		tx.DotCode != 250 || !tx.Committed || tx.Reset || tx.RcptDotCodes != nil ||
		!reflect.DeepEqual(tx.CommittedRcpts, []string{"b@dst.test", "c@dst.test"}) ||
		!reflect.DeepEqual(tx.AcceptedRcpts(), []string{"b@dst.test", "c@dst.test"}) {
		t.Fatalf("txn data part: %+v", tx)
	}
	if all := s.Txns(); len(all) != 1 || !reflect.DeepEqual(all[0], tx) {
		t.Fatalf("Txns(): %+v", all)
	}

	// Transcript is a deep copy.
	tr := s.Transcript()
	tr[0].Txns[0].Data[0] = 'X'
	tr[0].Txns[0].MailParams["SIZE"] = "0"
	tr[0].Txns[0].Rcpts[0].Params["NOTIFY"] = "NEVER"
	tr[0].Txns[0].CommittedRcpts[0] = "x"
	tr[0].Commands[0].Line = "x"
	if again := oneConn(t, s); !reflect.DeepEqual(again, cr) {
		t.Fatalf("transcript not deep-copied:\n%+v\n%+v", again, cr)
	}

	// Events.
	mu.Lock()
	defer mu.Unlock()
	var stages []Stage
	for _, ev := range events {
		stages = append(stages, ev.Stage)
		if ev.Conn != 1 || ev.TLS || ev.RemoteAddr == "" {
			t.Fatalf("event %+v", ev)
		}
	}
	wantStages := []Stage{"connect", "ehlo", "mail", "rcpt", "rcpt", "data", "dot", "noop", "quit"}
	if !reflect.DeepEqual(stages, wantStages) {
		t.Fatalf("stages %v", stages)
	}
	if ev := events[0]; ev.Txn != 0 || ev.Verb != "" {
		t.Fatalf("connect event %+v", ev)
	}
	if ev := events[1]; ev.Verb != "EHLO" || ev.Arg != "client.test" {
		t.Fatalf("ehlo event %+v", ev)
	}
	if ev := events[2]; ev.Txn != 1 || ev.From != "a@src.test" || ev.Params["SIZE"] != "123" || ev.Helo != "client.test" ||
		ev.Arg != tx.MailArg {
		t.Fatalf("mail event %+v", ev)
	}
	if ev := events[4]; ev.Rcpt != "c@dst.test" || ev.RcptIndex != 1 || ev.From != "a@src.test" || ev.Txn != 1 ||
		!reflect.DeepEqual(ev.Rcpts, []string{"b@dst.test"}) {
		t.Fatalf("second rcpt event %+v", ev)
	}
	if ev := events[6]; string(ev.Data) != "Subject: x\r\n\r\nbody\r\n" || len(ev.Rcpts) != 2 || ev.From != "a@src.test" {
		t.Fatalf("dot event %+v", ev)
	}
}

func TestNetSMTPStartTLS(t *testing.T) {
	k := testTLS()
	s := newServer(t, Config{STARTTLS: true, TLS: k.srvCfg, EightBitMIME: true, SMTPUTF8: true})

	c, err := smtp.Dial(s.Addr())
	if err != nil {
		t.Fatal(err)
	}
	defer c.Close()
	if err := c.Hello("client.test"); err != nil {
		t.Fatal(err)
	}
	if ok, _ := c.Extension("STARTTLS"); !ok {
		t.Fatal("STARTTLS not advertised before TLS")
	}
	if err := c.StartTLS(k.cliCfg); err != nil {
		t.Fatalf("StartTLS: %v", err)
	}
	if ok, _ := c.Extension("STARTTLS"); ok {
		t.Fatal("STARTTLS advertised inside TLS")
	}
	if ok, _ := c.Extension("8BITMIME"); !ok {
		t.Fatal("8BITMIME lost after TLS")
	}
	if err := c.Mail("sender@src.test"); err != nil {
		t.Fatal(err)
	}
	if err := c.Rcpt("rcpt@dst.test"); err != nil {
		t.Fatal(err)
	}
	w, err := c.Data()
	if err != nil {
		t.Fatal(err)
	}
	body := "Subject: hi\r\n\r\n.leading dot\r\n..two\r\nend\r\n"
	io.WriteString(w, body)
	if err := w.Close(); err != nil {
		t.Fatalf("data close: %v", err)
	}
	if err := c.Quit(); err != nil {
		t.Fatal(err)
	}
	waitIdle(t, s)

	cr := oneConn(t, s)
	if !cr.TLS || cr.TLSState == nil || !cr.TLSState.HandshakeComplete || cr.TLSState.ServerName != "mx.smtpd.test" || cr.TLSError != "" {
		t.Fatalf("TLS state: %+v %+v", cr, cr.TLSState)
	}
	if cr.Helo != "client.test" || !cr.HeloIsEHLO {
		t.Fatalf("helo %+v", cr)
	}
	// EHLO, STARTTLS in clear; second EHLO and everything after under TLS.
	var sawStartTLS bool
	for _, cm := range cr.Commands {
		switch {
		case cm.Line == "STARTTLS":
			sawStartTLS = true
			if cm.TLS || cm.ReplyCode != 220 {
				t.Fatalf("STARTTLS record %+v", cm)
			}
		case sawStartTLS && !cm.TLS, !sawStartTLS && cm.TLS:
			t.Fatalf("TLS flag wrong on %+v", cm)
		}
	}
	if len(cr.Txns) != 1 {
		t.Fatalf("txns %d", len(cr.Txns))
	}
	tx := cr.Txns[0]
	if !tx.TLS || !tx.Committed || string(tx.Data) != body || tx.From != "sender@src.test" {
		t.Fatalf("txn %+v", tx)
	}
	if _, ok := tx.MailParams["BODY"]; !ok {
		t.Fatalf("net/smtp should have sent BODY=8BITMIME: %q", tx.MailArg)
	}
}

func TestStartTLSResetsSession(t *testing.T) {
	k := testTLS()
	s := newServer(t, Config{STARTTLS: true, TLS: k.srvCfg})
	c := dialRaw(t, s)
	c.expect(220)
	c.cmd("EHLO a.test", 250)
	c.cmd("MAIL FROM:<x@y.test>", 250)
	c.cmd("STARTTLS", 220)
	tc := tls.Client(c.c, k.cliCfg)
	if err := tc.Handshake(); err != nil {
		t.Fatal(err)
	}
	c2 := &rawClient{t: t, c: tc, br: bufio.NewReader(tc)}
	c2.cmd("MAIL FROM:<x@y.test>", 503) // hello forgotten
	c2.cmd("STARTTLS", 503)
	caps := c2.cmd("EHLO b.test", 250)
	for _, l := range caps {
		if l == "STARTTLS" {
			t.Fatal("STARTTLS advertised in TLS")
		}
	}
	c2.cmd("QUIT", 221)
	waitIdle(t, s)
	cr := oneConn(t, s)
	if len(cr.Txns) != 2 || !cr.Txns[0].Reset || cr.Txns[0].TLS || cr.Txns[1].MailCode != 503 || !cr.Txns[1].TLS || cr.Helo != "b.test" {
		t.Fatalf("txns %+v", cr.Txns)
	}
}

func TestImplicitTLS(t *testing.T) {
	k := testTLS()
	s := newServer(t, Config{ImplicitTLS: true, TLS: k.srvCfg, STARTTLS: true})
	tc, err := tls.Dial("tcp", s.Addr(), k.cliCfg)
	if err != nil {
		t.Fatal(err)
	}
	c, err := smtp.NewClient(tc, "mx.smtpd.test")
	if err != nil {
		t.Fatal(err)
	}
	if ok, _ := c.Extension("STARTTLS"); ok {
		t.Fatal("STARTTLS advertised on implicit TLS")
	}
	if err := c.Mail("a@b.test"); err != nil {
		t.Fatal(err)
	}
	if err := c.Quit(); err != nil {
		t.Fatal(err)
	}
	waitIdle(t, s)
	cr := oneConn(t, s)
	if !cr.TLS || cr.TLSState == nil || !cr.Commands[0].TLS || cr.Commands[0].Stage != StageConnect || !cr.Txns[0].TLS {
		t.Fatalf("record %+v", cr)
	}

	// A plaintext client on an implicit-TLS port: handshake fails, recorded.
	pc, err := net.Dial("tcp", s.Addr())
	if err != nil {
		t.Fatal(err)
	}
	pc.Write([]byte("EHLO plain.test\r\n"))
	io.Copy(io.Discard, pc)
	pc.Close()
	waitIdle(t, s)
	tr := s.Transcript()
	if len(tr) != 2 || tr[1].TLS || tr[1].TLSError == "" || tr[1].EndReason != "tls-handshake" || !tr[1].Ended || len(tr[1].Commands) != 0 {
		t.Fatalf("plaintext-on-TLS record %+v", tr[1])
	}
}

func TestStartTLSBroken(t *testing.T) {
	k := testTLS()
	t.Run("reply454", func(t *testing.T) {
		s := newServer(t, Config{STARTTLS: true, TLS: k.srvCfg, StartTLSBroken: "reply454"})
		c, err := smtp.Dial(s.Addr())
		if err != nil {
			t.Fatal(err)
		}
		defer c.Close()
		if ok, _ := c.Extension("STARTTLS"); !ok {
			t.Fatal("STARTTLS must still be advertised")
		}
		err = c.StartTLS(k.cliCfg)
		var tpe *textproto.Error
		if !errors.As(err, &tpe) || tpe.Code != 454 || !strings.HasPrefix(tpe.Msg, "4.7.0 ") {
			t.Fatalf("StartTLS error %v", err)
		}
		// The session goes on in the clear.
		if err := c.Mail("a@b.test"); err != nil {
			t.Fatal(err)
		}
		c.Quit()
		waitIdle(t, s)
		cr := oneConn(t, s)
		if cr.TLS || cr.ClosedByServer || cr.Txns[0].TLS {
			t.Fatalf("%+v", cr)
		}
	})
	t.Run("handshake", func(t *testing.T) {
		// No TLS config needed for a server that never completes a handshake.
		s := newServer(t, Config{STARTTLS: true, StartTLSBroken: "handshake"})
		c, err := smtp.Dial(s.Addr())
		if err != nil {
			t.Fatal(err)
		}
		defer c.Close()
		err = c.StartTLS(k.cliCfg)
		if err == nil {
			t.Fatal("StartTLS succeeded against broken handshake")
		}
		var tpe *textproto.Error
		if errors.As(err, &tpe) {
			t.Fatalf("want a TLS-level error, got SMTP reply %v", err)
		}
		if !strings.Contains(err.Error(), "handshake failure") {
			t.Logf("handshake error (informational): %v", err)
		}
		waitIdle(t, s)
		cr := oneConn(t, s)
		if cr.TLS || !cr.ClosedByServer || cr.TLSError == "" || cr.EndReason != "tls-handshake" {
			t.Fatalf("%+v", cr)
		}
		last := cr.Commands[len(cr.Commands)-1]
		if last.Line != "STARTTLS" || last.ReplyCode != 220 {
			t.Fatalf("last cmd %+v", last)
		}
	})
	t.Run("client-rejects-cert", func(t *testing.T) {
		s := newServer(t, Config{STARTTLS: true, TLS: k.srvCfg})
		c, err := smtp.Dial(s.Addr())
		if err != nil {
			t.Fatal(err)
		}
		defer c.Close()
		bad := k.cliCfg.Clone()
		bad.ServerName = "other.test"
		if err := c.StartTLS(bad); err == nil {
			t.Fatal("StartTLS with wrong name succeeded")
		}
		c.Close()
		waitIdle(t, s)
		cr := oneConn(t, s)
		if cr.TLS || cr.ClosedByServer || cr.TLSError == "" {
			t.Fatalf("%+v", cr)
		}
	})
	if _, err := New(Config{StartTLSBroken: "bogus"}); err == nil {
		t.Fatal("bogus StartTLSBroken accepted")
	}
	if _, err := New(Config{STARTTLS: true}); err == nil {
		t.Fatal("STARTTLS without TLS config accepted")
	}
	if _, err := New(Config{ImplicitTLS: true}); err == nil {
		t.Fatal("ImplicitTLS without TLS config accepted")
	}
}

func TestNoEHLO(t *testing.T) {
	s := newServer(t, Config{NoEHLO: true, PIPELINING: true})
	c, err := smtp.Dial(s.Addr())
	if err != nil {
		t.Fatal(err)
	}
	defer c.Close()
	if err := c.Hello("old.client.test"); err != nil {
		t.Fatalf("Hello with HELO fallback: %v", err)
	}
	if ok, _ := c.Extension("PIPELINING"); ok {
		t.Fatal("extensions visible after HELO")
	}
	if err := c.Mail("a@b.test"); err != nil {
		t.Fatal(err)
	}
	c.Quit()
	waitIdle(t, s)
	cr := oneConn(t, s)
	if cr.Helo != "old.client.test" || cr.HeloIsEHLO {
		t.Fatalf("%+v", cr)
	}
	if cr.Commands[1].Line != "EHLO old.client.test" || cr.Commands[1].ReplyCode != 502 ||
		cr.Commands[2].Line != "HELO old.client.test" || cr.Commands[2].Reply != "250 smtpd.test\r\n" {
		t.Fatalf("commands %+v", cr.Commands[:3])
	}
}

func TestScriptedRepliesAtEachStage(t *testing.T) {
	t.Run("connect", func(t *testing.T) {
		s := newServer(t, Config{Script: scriptFor(StageConnect, &Action{Code: 554, Enh: "5.3.2", Text: []string{"go away", "really"}})})
		c := dialRaw(t, s)
		l := c.expect(554)
		if !reflect.DeepEqual(l, []string{"5.3.2 go away", "5.3.2 really"}) {
			t.Fatalf("%q", l)
		}
		c.cmd("QUIT", 221)
		waitIdle(t, s)
		if r := oneConn(t, s).Commands[0].Reply; r != "554-5.3.2 go away\r\n554 5.3.2 really\r\n" {
			t.Fatalf("raw %q", r)
		}
	})
	t.Run("connect-421-dropafter", func(t *testing.T) {
		s := newServer(t, Config{Script: scriptFor(StageConnect, &Action{Code: 421, Enh: "4.3.2", DropAfter: true})})
		_, err := smtp.Dial(s.Addr())
		var tpe *textproto.Error
		if !errors.As(err, &tpe) || tpe.Code != 421 {
			t.Fatalf("dial err %v", err)
		}
		waitIdle(t, s)
		if cr := oneConn(t, s); !cr.ClosedByServer || cr.EndReason != "drop-after" {
			t.Fatalf("%+v", cr)
		}
	})
	t.Run("ehlo", func(t *testing.T) {
		s := newServer(t, Config{Script: func(ev Event) *Action {
			if ev.Stage == StageEHLO && ev.Arg == "bad.test" {
				return &Action{Code: 550, Enh: "5.7.1", Text: []string{"not you"}}
			}
			if ev.Stage == StageEHLO {
				return &Action{Text: []string{"hi there", "X-CUSTOM yes", "SMTPUTF8"}}
			}
			return nil
		}})
		c := dialRaw(t, s)
		c.expect(220)
		if l := c.cmd("EHLO bad.test", 550); l[0] != "5.7.1 not you" {
			t.Fatalf("%q", l)
		}
		c.cmd("MAIL FROM:<a@b.test>", 503) // EHLO was refused
		if l := c.cmd("EHLO good.test", 250); !reflect.DeepEqual(l, []string{"hi there", "X-CUSTOM yes", "SMTPUTF8"}) {
			t.Fatalf("%q", l)
		}
		c.cmd("MAIL FROM:<a@b.test>", 250)
	})
	t.Run("mail", func(t *testing.T) {
		s := newServer(t, Config{Script: func(ev Event) *Action {
			if ev.Stage == StageMail && ev.From == "bad@src.test" {
				return &Action{Code: 451, Enh: "4.7.1", Text: []string{"greylisted"}}
			}
			return nil
		}})
		c := dialRaw(t, s)
		c.expect(220)
		c.cmd("EHLO a.test", 250)
		if l := c.cmd("MAIL FROM:<bad@src.test>", 451); l[0] != "4.7.1 greylisted" {
			t.Fatalf("%q", l)
		}
		c.cmd("RCPT TO:<r@dst.test>", 503) // no transaction
		c.cmd("DATA", 503)
		c.cmd("MAIL FROM:<good@src.test>", 250)
		c.cmd("RCPT TO:<r@dst.test>", 250)
		c.cmd("QUIT", 221)
		waitIdle(t, s)
		cr := oneConn(t, s)
		if len(cr.Txns) != 2 || cr.Txns[0].MailCode != 451 || len(cr.Txns[0].Rcpts) != 0 || cr.Txns[0].Reset ||
			cr.Txns[1].N != 2 || cr.Txns[1].MailCode != 250 || len(cr.Txns[1].Rcpts) != 1 || cr.Txns[1].Committed {
			t.Fatalf("%+v", cr.Txns)
		}
	})
	t.Run("rcpt", func(t *testing.T) {
		s := newServer(t, Config{Script: func(ev Event) *Action {
			if ev.Stage == StageRcpt {
				switch ev.RcptIndex {
				case 0:
					return &Action{Code: 550, Enh: "5.1.1", Text: []string{"no such user"}}
				case 2:
					return &Action{Code: 452, Enh: "4.5.3", Text: []string{"too many"}}
				case 3:
					return &Action{Code: 251, Enh: "2.1.5", Text: []string{"will forward"}}
				}
			}
			return nil
		}})
		c := dialRaw(t, s)
		c.expect(220)
		c.cmd("EHLO a.test", 250)
		c.cmd("MAIL FROM:<f@src.test>", 250)
		c.cmd("RCPT TO:<r0@dst.test>", 550)
		c.cmd("DATA", 503) // no valid recipient yet
		c.cmd("RCPT TO:<r1@dst.test>", 250)
		c.cmd("RCPT TO:<r2@dst.test>", 452)
		c.cmd("RCPT TO:<r3@dst.test>", 251)
		c.cmd("DATA", 354)
		c.write([]byte("x\r\n.\r\n"))
		c.expect(250)
		c.cmd("QUIT", 221)
		waitIdle(t, s)
		tx := oneConn(t, s).Txns[0]
		var codes []int
		for _, r := range tx.Rcpts {
			codes = append(codes, r.Code)
		}
		if !reflect.DeepEqual(codes, []int{550, 250, 452, 251}) ||
			!reflect.DeepEqual(tx.CommittedRcpts, []string{"r1@dst.test", "r3@dst.test"}) || !tx.Committed || tx.DataCmdCode != 354 {
			t.Fatalf("%+v", tx)
		}
	})
	t.Run("data", func(t *testing.T) {
		s := newServer(t, Config{Script: scriptFor(StageData, &Action{Code: 451, Enh: "4.3.0", Text: []string{"not now"}})})
		c, err := smtp.Dial(s.Addr())
		if err != nil {
			t.Fatal(err)
		}
		defer c.Close()
		c.Mail("a@b.test")
		c.Rcpt("c@d.test")
		_, err = c.Data()
		var tpe *textproto.Error
		if !errors.As(err, &tpe) || tpe.Code != 451 || tpe.Msg != "4.3.0 not now" {
			t.Fatalf("Data err %v", err)
		}
		// No payload expected: the next command is a command.
		if err := c.Reset(); err != nil {
			t.Fatal(err)
		}
		c.Quit()
		waitIdle(t, s)
		tx := oneConn(t, s).Txns[0]
		if tx.DataCmdCode != 451 || tx.DataReceived || tx.Data != nil || tx.Committed || !tx.Reset {
			t.Fatalf("%+v", tx)
		}
	})
	t.Run("dot", func(t *testing.T) {
		s := newServer(t, Config{Script: func(ev Event) *Action {
			if ev.Stage == StageDot && ev.Txn == 1 {
				return &Action{Code: 552, Enh: "5.3.4", Text: []string{"too big", "much too big"}}
			}
			return nil
		}})
		c, err := smtp.Dial(s.Addr())
		if err != nil {
			t.Fatal(err)
		}
		defer c.Close()
		send := func() error {
			if err := c.Mail("a@b.test"); err != nil {
				return err
			}
			if err := c.Rcpt("c@d.test"); err != nil {
				return err
			}
			w, err := c.Data()
			if err != nil {
				return err
			}
			io.WriteString(w, "payload\r\n")
			return w.Close()
		}
		err = send()
		var tpe *textproto.Error
		if !errors.As(err, &tpe) || tpe.Code != 552 || tpe.Msg != "5.3.4 too big\n5.3.4 much too big" {
			t.Fatalf("dot err %v", err)
		}
		// The transaction is over; a new MAIL is fine without RSET.
		if err := send(); err != nil {
			t.Fatalf("second txn: %v", err)
		}
		c.Quit()
		waitIdle(t, s)
		txs := oneConn(t, s).Txns
		if len(txs) != 2 || txs[0].Committed || txs[0].CommittedRcpts != nil || txs[0].DotCode != 552 || !txs[0].DataReceived ||
			string(txs[0].Data) != "payload\r\n" || !txs[1].Committed || txs[1].DotCode != 250 || txs[0].Reset || txs[1].Reset {
			t.Fatalf("%+v", txs)
		}
	})
	t.Run("rset-noop-quit-unknown", func(t *testing.T) {
		s := newServer(t, Config{Script: func(ev Event) *Action {
			switch ev.Stage {
			case StageRset:
				return &Action{Code: 451, Text: []string{"cannot reset"}}
			case StageNoop:
				return &Action{Code: 421, Enh: "4.4.2", Text: []string{"idle too long"}, DropAfter: true}
			case StageUnknown:
				if ev.Verb == "XFOO" {
					return &Action{Code: 250, Text: []string{"sure " + ev.Arg}}
				}
			}
			return nil
		}})
		c := dialRaw(t, s)
		c.expect(220)
		c.cmd("EHLO a.test", 250)
		c.cmd("MAIL FROM:<a@b.test>", 250)
		if l := c.cmd("RSET", 451); l[0] != "cannot reset" {
			t.Fatalf("%q", l)
		}
		c.cmd("MAIL FROM:<a@b.test>", 503) // still in the first transaction
		if l := c.cmd("XFOO bar baz", 250); l[0] != "sure bar baz" {
			t.Fatalf("%q", l)
		}
		c.cmd("VRFY someone", 502)
		c.cmd("WHATEVER", 500)
		c.cmd("", 500)
		c.cmd("NOOP", 421)
		c.expectClosed()
		waitIdle(t, s)
		cr := oneConn(t, s)
		if !cr.ClosedByServer || cr.QuitSeen || cr.Txns[0].Reset || len(cr.Txns) != 2 || cr.Txns[1].MailCode != 503 {
			t.Fatalf("%+v", cr)
		}
	})
}

func TestDropAtDot(t *testing.T) {
	deliver := func(t *testing.T, s *Server) error {
		c, err := smtp.Dial(s.Addr())
		if err != nil {
			t.Fatal(err)
		}
		defer c.Close()
		if err := c.Mail("a@b.test"); err != nil {
			t.Fatal(err)
		}
		if err := c.Rcpt("c@d.test"); err != nil {
			t.Fatal(err)
		}
		w, err := c.Data()
		if err != nil {
			t.Fatal(err)
		}
		io.WriteString(w, "hello\r\n")
		return w.Close()
	}
	t.Run("before", func(t *testing.T) {
		s := newServer(t, Config{Script: scriptFor(StageDot, &Action{DropBefore: true})})
		err := deliver(t, s)
		if err == nil {
			t.Fatal("client saw success although the server dropped before the reply")
		}
		var tpe *textproto.Error
		if errors.As(err, &tpe) {
			t.Fatalf("client got an SMTP reply: %v", err)
		}
		waitIdle(t, s)
		cr := oneConn(t, s)
		tx := cr.Txns[0]
		if tx.Committed || tx.CommittedRcpts != nil || tx.DotCode != 0 || !tx.DataReceived || string(tx.Data) != "hello\r\n" ||
			!cr.ClosedByServer || cr.EndReason != "drop-before" {
			t.Fatalf("%+v / %+v", cr, tx)
		}
		last := cr.Commands[len(cr.Commands)-1]
		if last.Line != "." || last.ReplyCode != 0 || last.Reply != "" || !last.ReplyAt.IsZero() {
			t.Fatalf("%+v", last)
		}
	})
	t.Run("after", func(t *testing.T) {
		s := newServer(t, Config{Script: scriptFor(StageDot, &Action{DropAfter: true})})
		if err := deliver(t, s); err != nil {
			t.Fatalf("reply should have arrived before the drop: %v", err)
		}
		waitIdle(t, s)
		cr := oneConn(t, s)
		tx := cr.Txns[0]
		if !tx.Committed || !reflect.DeepEqual(tx.CommittedRcpts, []string{"c@d.test"}) || tx.DotCode != 250 ||
			!cr.ClosedByServer || cr.EndReason != "drop-after" {
			t.Fatalf("%+v / %+v", cr, tx)
		}
	})
	t.Run("after-with-error-code", func(t *testing.T) {
		s := newServer(t, Config{Script: scriptFor(StageDot, &Action{Code: 451, Enh: "4.2.0", DropAfter: true})})
		err := deliver(t, s)
		var tpe *textproto.Error
		if !errors.As(err, &tpe) || tpe.Code != 451 {
			t.Fatalf("%v", err)
		}
		waitIdle(t, s)
		if tx := oneConn(t, s).Txns[0]; tx.Committed || tx.DotCode != 451 {
			t.Fatalf("%+v", tx)
		}
	})
	t.Run("rst", func(t *testing.T) {
		s := newServer(t, Config{Script: scriptFor(StageMail, &Action{DropBefore: true, RST: true})})
		c := dialRaw(t, s)
		c.expect(220)
		c.cmd("EHLO a.test", 250)
		c.send("MAIL FROM:<a@b.test>")
		err := c.expectClosed()
		if !errors.Is(err, syscall.ECONNRESET) {
			t.Fatalf("want ECONNRESET, got %v", err)
		}
		waitIdle(t, s)
		if tx := oneConn(t, s).Txns[0]; tx.MailCode != 0 {
			t.Fatalf("%+v", tx)
		}
	})
}

func TestLMTPPerRecipient(t *testing.T) {
	var mu sync.Mutex
	var statusEvents []Event
	s := newServer(t, Config{LMTP: true, PIPELINING: true, Script: func(ev Event) *Action {
		switch ev.Stage {
		case StageRcpt:
			if ev.Rcpt == "nouser@dst.test" {
				return &Action{Code: 550, Enh: "5.1.1", Text: []string{"unknown"}}
			}
		case StageLMTPRcptStatus:
			mu.Lock()
			statusEvents = append(statusEvents, ev)
			mu.Unlock()
			if ev.Rcpt == "full@dst.test" {
				return &Action{Code: 452, Enh: "4.2.2", Text: []string{"mailbox full"}}
			}
		}
		return nil
	}})
	c := dialRaw(t, s)
	if g := c.expect(220); !strings.Contains(g[0], "LMTP") {
		t.Fatalf("greeting %q", g)
	}
	c.cmd("EHLO a.test", 500)
	c.cmd("HELO a.test", 500)
	c.cmd("MAIL FROM:<a@b.test>", 503)
	caps := c.cmd("LHLO a.test", 250)
	if !reflect.DeepEqual(caps, []string{"smtpd.test", "PIPELINING", "ENHANCEDSTATUSCODES"}) {
		t.Fatalf("LHLO %q", caps)
	}
	c.cmd("MAIL FROM:<from@src.test>", 250)
	c.cmd("RCPT TO:<ok1@dst.test>", 250)
	c.cmd("RCPT TO:<nouser@dst.test>", 550)
	c.cmd("RCPT TO:<full@dst.test>", 250)
	c.cmd("RCPT TO:<ok2@dst.test>", 250)
	c.cmd("DATA", 354)
	c.write([]byte("msg\r\n.\r\n"))
	if l := c.expect(250); l[0] != "2.1.5 <ok1@dst.test> delivered" {
		t.Fatalf("%q", l)
	}
	if l := c.expect(452); l[0] != "4.2.2 mailbox full" {
		t.Fatalf("%q", l)
	}
	if l := c.expect(250); l[0] != "2.1.5 <ok2@dst.test> delivered" {
		t.Fatalf("%q", l)
	}
	// Exactly three replies: the next reply belongs to NOOP.
	if l := c.cmd("NOOP", 250); l[0] != "2.0.0 OK" {
		t.Fatalf("%q", l)
	}
	c.cmd("QUIT", 221)
	waitIdle(t, s)

	cr := oneConn(t, s)
	if !cr.HeloIsEHLO || cr.Helo != "a.test" {
		t.Fatalf("%+v", cr)
	}
	if len(cr.Txns) != 2 {
		t.Fatalf("txns %+v", cr.Txns)
	}
	tx := cr.Txns[1]
	if !reflect.DeepEqual(tx.RcptDotCodes, []int{250, 452, 250}) ||
		!reflect.DeepEqual(tx.CommittedRcpts, []string{"ok1@dst.test", "ok2@dst.test"}) ||
		!tx.Committed || tx.DotCode != 0 || string(tx.Data) != "msg\r\n" || !tx.DataReceived ||
		!reflect.DeepEqual(tx.AcceptedRcpts(), []string{"ok1@dst.test", "full@dst.test", "ok2@dst.test"}) {
		t.Fatalf("%+v", tx)
	}
	var stages []Stage
	for _, cm := range cr.Commands {
		stages = append(stages, cm.Stage)
	}
	tail := stages[len(stages)-6:]
	if !reflect.DeepEqual(tail, []Stage{"dot", "lmtp-rcpt-status", "lmtp-rcpt-status", "lmtp-rcpt-status", "noop", "quit"}) {
		t.Fatalf("stages %v", stages)
	}
	mu.Lock()
	defer mu.Unlock()
	if len(statusEvents) != 3 || statusEvents[1].Rcpt != "full@dst.test" || statusEvents[1].RcptIndex != 2 ||
		statusEvents[2].RcptIndex != 3 || string(statusEvents[2].Data) != "msg\r\n" || statusEvents[0].From != "from@src.test" ||
		len(statusEvents[0].Rcpts) != 3 {
		t.Fatalf("%+v", statusEvents)
	}
}

func TestLMTPDropsAndSingleReply(t *testing.T) {
	session := func(t *testing.T, s *Server) *rawClient {
		c := dialRaw(t, s)
		c.expect(220)
		c.cmd("LHLO a.test", 250)
		c.cmd("MAIL FROM:<f@src.test>", 250)
		c.cmd("RCPT TO:<r1@dst.test>", 250)
		c.cmd("RCPT TO:<r2@dst.test>", 250)
		c.cmd("RCPT TO:<r3@dst.test>", 250)
		c.cmd("DATA", 354)
		c.write([]byte("m\r\n.\r\n"))
		return c
	}
	t.Run("drop-before-second-status", func(t *testing.T) {
		s := newServer(t, Config{LMTP: true, Script: func(ev Event) *Action {
			if ev.Stage == StageLMTPRcptStatus && ev.Rcpt == "r2@dst.test" {
				return &Action{DropBefore: true}
			}
			return nil
		}})
		c := session(t, s)
		c.expect(250)
		c.expectClosed()
		waitIdle(t, s)
		tx := oneConn(t, s).Txns[0]
		if !reflect.DeepEqual(tx.RcptDotCodes, []int{250, 0, 0}) || !reflect.DeepEqual(tx.CommittedRcpts, []string{"r1@dst.test"}) || !tx.Committed {
			t.Fatalf("%+v", tx)
		}
	})
	t.Run("drop-at-dot", func(t *testing.T) {
		s := newServer(t, Config{LMTP: true, Script: scriptFor(StageDot, &Action{DropBefore: true})})
		c := session(t, s)
		c.expectClosed()
		waitIdle(t, s)
		tx := oneConn(t, s).Txns[0]
		if tx.RcptDotCodes != nil || tx.CommittedRcpts != nil || tx.Committed || !tx.DataReceived {
			t.Fatalf("%+v", tx)
		}
	})
	t.Run("single-reply", func(t *testing.T) {
		s := newServer(t, Config{LMTP: true, Script: scriptFor(StageDot, &Action{Code: 451, Enh: "4.3.0", Text: []string{"all failed"}})})
		c := session(t, s)
		c.expect(451)
		if l := c.cmd("NOOP", 250); l[0] != "2.0.0 OK" {
			t.Fatalf("%q", l)
		}
		c.cmd("QUIT", 221)
		waitIdle(t, s)
		tx := oneConn(t, s).Txns[0]
		if tx.DotCode != 451 || tx.RcptDotCodes != nil || tx.Committed {
			t.Fatalf("%+v", tx)
		}
	})
	t.Run("hold-at-dot-then-default", func(t *testing.T) {
		gate := make(chan struct{})
		s := newServer(t, Config{LMTP: true, Script: scriptFor(StageDot, &Action{Hold: gate})})
		c := session(t, s)
		c.c.SetReadDeadline(time.Now().Add(150 * time.Millisecond))
		if _, err := c.br.Peek(1); err == nil {
			t.Fatal("reply arrived although held")
		}
		close(gate)
		c.expect(250)
		c.expect(250)
		c.expect(250)
		c.cmd("QUIT", 221)
		waitIdle(t, s)
		if tx := oneConn(t, s).Txns[0]; len(tx.CommittedRcpts) != 3 {
			t.Fatalf("%+v", tx)
		}
	})
}

func TestPipelinedBurst(t *testing.T) {
	s := newServer(t, Config{PIPELINING: true, Script: func(ev Event) *Action {
		if ev.Stage == StageRcpt && ev.Rcpt == "bad@dst.test" {
			return &Action{Code: 550, Enh: "5.1.1"}
		}
		return nil
	}})
	c := dialRaw(t, s)
	// Everything, including two payloads, in a single write, before reading
	// even the greeting.
	burst := "EHLO burst.test\r\n" +
		"MAIL FROM:<one@src.test>\r\nRCPT TO:<a@dst.test>\r\nRCPT TO:<bad@dst.test>\r\nDATA\r\n" +
		"first\r\n..dot\r\n.\r\n" +
		"MAIL FROM:<two@src.test>\r\nRCPT TO:<b@dst.test>\r\nDATA\r\n" +
		"second\r\n.\r\n" +
		"RSET\r\nNOOP\r\nQUIT\r\n"
	c.write([]byte(burst))
	for i, want := range []int{220, 250, 250, 250, 550, 354, 250, 250, 250, 354, 250, 250, 250, 221} {
		got, lines, err := c.readReply()
		if err != nil || got != want {
			t.Fatalf("reply %d: got %d %q (%v), want %d", i, got, lines, err, want)
		}
	}
	c.expectClosed()
	waitIdle(t, s)
	txs := s.Txns()
	if len(txs) != 2 || string(txs[0].Data) != "first\r\n.dot\r\n" || string(txs[1].Data) != "second\r\n" ||
		!txs[0].Committed || !txs[1].Committed || txs[1].N != 2 || txs[1].From != "two@src.test" ||
		!reflect.DeepEqual(txs[0].CommittedRcpts, []string{"a@dst.test"}) || txs[0].Reset || txs[1].Reset {
		t.Fatalf("%+v", txs)
	}
	// Seq is strictly increasing within the connection.
	var last uint64
	for _, cm := range oneConn(t, s).Commands {
		if cm.Seq <= last {
			t.Fatalf("Seq not increasing: %+v", cm)
		}
		last = cm.Seq
	}
}

func TestDotStuffingRoundTrip(t *testing.T) {
	long := "." + strings.Repeat("L", 70000) + "\r\n" // longer than the read buffer, starts with a dot
	payloads := map[string][]byte{
		"empty":          nil,
		"just-dots":      []byte(".\r\n..\r\n...\r\n"),
		"dot-line-start": []byte(".hidden\r\nvisible\r\n.\r\n.again\r\n"),
		"binary": append([]byte("\x00\x01\xff\xfe bare\nLF and bare\rCR\r\n.\n.not-a-line-start\r\n\n.\r\n\r\r\n"),
			[]byte("caf\xc3\xa9 \x80\x81\r\n")...),
		"lf-dot-crlf-is-not-end": []byte("line\n.\r\nstill data\r\n"),
		"crlf-dot-lf-is-not-end": []byte("line\r\n.\nstill data\r\n"),
		"long-lines":             []byte(long + strings.Repeat("x", 32*1024-1) + "\r\n" + strings.Repeat("y", 32*1024-2) + "\r\n" + long),
		"no-final-crlf-in-body":  []byte("a\r\nb"), // client must still send CRLF before the dot; it becomes part of the payload
	}
	s := newServer(t, Config{})
	for name, p := range payloads {
		p := p
		t.Run(name, func(t *testing.T) {
			c := dialRaw(t, s)
			c.expect(220)
			c.cmd("EHLO a.test", 250)
			c.cmd("MAIL FROM:<"+name+"@src.test>", 250)
			c.cmd("RCPT TO:<r@dst.test>", 250)
			c.cmd("DATA", 354)
			want := p
			if len(p) > 0 && !bytes.HasSuffix(p, []byte("\r\n")) {
				want = append(append([]byte{}, p...), '\r', '\n')
			}
			wire := append(stuff(want), []byte(".\r\n")...)
			// Write in awkward chunks to exercise reassembly.
			for len(wire) > 0 {
				n := 1000
				if n > len(wire) {
					n = len(wire)
				}
				c.write(wire[:n])
				wire = wire[n:]
			}
			c.expect(250)
			c.cmd("QUIT", 221)
			waitIdle(t, s)
			for _, tx := range s.Txns() {
				if tx.From != name+"@src.test" {
					continue
				}
				if !bytes.Equal(tx.Data, want) {
					t.Fatalf("payload mismatch:\n got %q\nwant %q", trunc(tx.Data), trunc(want))
				}
				if !tx.DataReceived || !tx.Committed {
					t.Fatalf("%+v", tx)
				}
				return
			}
			t.Fatal("transaction not found")
		})
	}

	// And through the stdlib's dot writer.
	c, err := smtp.Dial(s.Addr())
	if err != nil {
		t.Fatal(err)
	}
	defer c.Close()
	c.Mail("dotwriter@src.test")
	c.Rcpt("r@dst.test")
	w, _ := c.Data()
	body := ".a\r\n..b\r\n\r\n.\r\n...\r\n\xff\x00z\r\n"
	io.WriteString(w, body)
	if err := w.Close(); err != nil {
		t.Fatal(err)
	}
	c.Quit()
	waitIdle(t, s)
	txs := s.Txns()
	if got := txs[len(txs)-1]; got.From != "dotwriter@src.test" || string(got.Data) != body {
		t.Fatalf("dotwriter payload %q", got.Data)
	}
}

func trunc(b []byte) []byte {
	if len(b) > 300 {
		return append(append([]byte{}, b[:300]...), "..."...)
	}
	return b
}

func TestHoldDelayAndObservers(t *testing.T) {
	gate := make(chan struct{})
	reached := make(chan struct{})
	s := newServer(t, Config{Script: func(ev Event) *Action {
		switch ev.Stage {
		case StageDot:
			close(reached)
			return &Action{Hold: gate}
		case StageNoop:
			return &Action{Delay: 120 * time.Millisecond}
		}
		return nil
	}})
	if !s.WaitIdle(time.Millisecond) || s.ConnCount() != 0 || s.TotalConns() != 0 {
		t.Fatal("fresh server not idle")
	}
	c := dialRaw(t, s)
	c.expect(220)
	c.cmd("EHLO a.test", 250)
	c.cmd("MAIL FROM:<a@b.test>", 250)
	c.cmd("RCPT TO:<c@d.test>", 250)
	c.cmd("DATA", 354)
	c.write([]byte("held\r\n.\r\n"))
	<-reached
	if s.WaitIdle(50 * time.Millisecond) {
		t.Fatal("WaitIdle true while a handler is held")
	}
	if s.ConnCount() != 1 || s.TotalConns() != 1 {
		t.Fatalf("counts %d %d", s.ConnCount(), s.TotalConns())
	}
	// The pending command is visible, not yet answered, nothing committed.
	cr := oneConn(t, s)
	last := cr.Commands[len(cr.Commands)-1]
	if last.Line != "." || last.ReplyCode != 0 || cr.Txns[0].Committed || !cr.Txns[0].DataReceived || cr.Ended {
		t.Fatalf("%+v", cr)
	}
	c.c.SetReadDeadline(time.Now().Add(100 * time.Millisecond))
	if _, err := c.br.Peek(1); err == nil {
		t.Fatal("reply arrived although held")
	}
	close(gate)
	c.expect(250)
	if !oneConn(t, s).Txns[0].Committed {
		t.Fatal("not committed after release")
	}

	start := time.Now()
	c.cmd("NOOP", 250)
	if d := time.Since(start); d < 100*time.Millisecond {
		t.Fatalf("Delay not honoured: %v", d)
	}
	c.cmd("QUIT", 221)
	waitIdle(t, s)
	if s.ConnCount() != 0 || s.TotalConns() != 1 {
		t.Fatalf("counts %d %d", s.ConnCount(), s.TotalConns())
	}
}

func TestCloseUnblocksEverything(t *testing.T) {
	never := make(chan struct{})
	s, err := New(Config{Script: func(ev Event) *Action {
		if ev.Stage == StageMail && ev.From == "a@b.test" {
			return &Action{Hold: never}
		}
		return nil
	}})
	if err != nil {
		t.Fatal(err)
	}
	held := dialRaw(t, s)
	held.expect(220)
	held.cmd("EHLO a.test", 250)
	held.send("MAIL FROM:<a@b.test>")
	idle := dialRaw(t, s)
	idle.expect(220)
	middata := dialRaw(t, s)
	middata.expect(220)
	middata.cmd("EHLO a.test", 250)
	middata.cmd("MAIL FROM:<m@b.test>", 250)
	middata.cmd("RCPT TO:<c@d.test>", 250)
	middata.cmd("DATA", 354)
	middata.write([]byte("partial line\r\nand more"))
	time.Sleep(50 * time.Millisecond)

	done := make(chan struct{})
	go func() { s.Close(); close(done) }()
	select {
	case <-done:
	case <-time.After(10 * time.Second):
		t.Fatal("Close hangs")
	}
	s.Close() // idempotent
	held.expectClosed()
	idle.expectClosed()
	middata.expectClosed()
	if !s.WaitIdle(time.Second) || s.ConnCount() != 0 || s.TotalConns() != 3 {
		t.Fatalf("after Close: %d %d", s.ConnCount(), s.TotalConns())
	}
	tr := s.Transcript()
	if len(tr) != 3 {
		t.Fatalf("%d", len(tr))
	}
	for _, cr := range tr {
		if !cr.Ended || !cr.ClosedByServer || cr.EndReason != "server-close" {
			t.Fatalf("%+v", cr)
		}
	}
	if tx := tr[2].Txns[0]; tx.DataReceived || tx.Committed || string(tx.Data) != "partial line\r\nand more" {
		t.Fatalf("%+v", tx)
	}
	if _, err := net.DialTimeout("tcp", s.Addr(), time.Second); err == nil {
		t.Fatal("listener still open")
	}
}

func TestClientDisappears(t *testing.T) {
	s := newServer(t, Config{})
	c := dialRaw(t, s)
	c.expect(220)
	c.cmd("EHLO a.test", 250)
	c.cmd("MAIL FROM:<a@b.test>", 250)
	c.c.Close()
	waitIdle(t, s)
	cr := oneConn(t, s)
	if cr.ClosedByServer || !cr.Ended || cr.EndReason != "client-eof" || cr.QuitSeen || cr.Txns[0].Reset || cr.Txns[0].Committed {
		t.Fatalf("%+v", cr)
	}
}

func TestRawAndNonASCIIReplies(t *testing.T) {
	weird := "caf\xc3\xa9 \xff\xfe \x01 ü"
	s := newServer(t, Config{Script: func(ev Event) *Action {
		switch ev.Stage {
		case StageMail:
			return &Action{Code: 250, Enh: "2.1.0", Text: []string{weird, weird + " 2"}}
		case StageRcpt:
			// Nonsense framing: LF only, no enhanced code; state machine goes by the digits.
			return &Action{Raw: []byte("550 raw no\n")}
		case StageNoop:
			// Raw with explicit Code overriding the digits.
			return &Action{Raw: []byte("250-only a continuation line\r\n"), Code: 250}
		case StageRset:
			return &Action{Raw: []byte{}, Code: 250} // nothing on the wire, but it counts as 250
		}
		return nil
	}})
	c := dialRaw(t, s)
	c.expect(220)
	c.cmd("EHLO a.test", 250)
	if l := c.cmd("MAIL FROM:<a@b.test>", 250); l[0] != "2.1.0 "+weird || l[1] != "2.1.0 "+weird+" 2" {
		t.Fatalf("%q", l)
	}
	c.send("RCPT TO:<c@d.test>")
	c.c.SetReadDeadline(time.Now().Add(5 * time.Second))
	if l, err := c.br.ReadString('\n'); err != nil || l != "550 raw no\n" {
		t.Fatalf("%q %v", l, err)
	}
	c.cmd("DATA", 503) // the raw 550 rejected the only recipient
	c.send("NOOP")
	if l, err := c.br.ReadString('\n'); err != nil || l != "250-only a continuation line\r\n" {
		t.Fatalf("%q %v", l, err)
	}
	c.send("RSET")
	c.send("EHLO again.test") // nothing was sent for RSET; next reply is EHLO's
	c.expect(250)
	c.cmd("MAIL FROM:<two@b.test>", 250)
	c.cmd("RCPT TO:<ok@d.test> X", 550) // raw again
	c.cmd("QUIT", 221)
	waitIdle(t, s)
	cr := oneConn(t, s)
	if cr.Txns[0].Rcpts[0].Code != 550 || !cr.Txns[0].Reset {
		t.Fatalf("%+v", cr.Txns[0])
	}
	if rs := cr.Commands[6]; rs.Line != "RSET" || rs.ReplyCode != 250 || rs.Reply != "" || rs.ReplyAt.IsZero() {
		t.Fatalf("%+v", rs)
	}
	if cr.Commands[2].Reply != "250-2.1.0 "+weird+"\r\n250 2.1.0 "+weird+" 2\r\n" {
		t.Fatalf("%q", cr.Commands[2].Reply)
	}
}

func TestUTF8Addresses(t *testing.T) {
	s := newServer(t, Config{SMTPUTF8: true})
	c := dialRaw(t, s)
	c.expect(220)
	c.cmd("EHLO a.test", 250)
	c.cmd("MAIL FROM:<дима@пример.рф> SMTPUTF8", 250)
	c.cmd(`RCPT TO:<"quoted>local"@例え.jp>`, 250)
	c.cmd("RCPT TO:<@relay.test,@other.test:routed@dst.test>", 250)
	c.cmd("RCPT TO:bare@dst.test NOTIFY=NEVER", 250)
	c.cmd("RCPT TO:<broken", 501)
	c.cmd("RCPT FOR:<x@y.test>", 501)
	c.cmd("QUIT", 221)
	waitIdle(t, s)
	tx := oneConn(t, s).Txns[0]
	if tx.From != "дима@пример.рф" {
		t.Fatalf("from %q", tx.From)
	}
	if _, ok := tx.MailParams["SMTPUTF8"]; !ok {
		t.Fatalf("%+v", tx.MailParams)
	}
	want := []string{`"quoted>local"@例え.jp`, "routed@dst.test", "bare@dst.test"}
	if !reflect.DeepEqual(tx.AcceptedRcpts(), want) {
		t.Fatalf("%q", tx.AcceptedRcpts())
	}
	if tx.Rcpts[2].Params["NOTIFY"] != "NEVER" || len(tx.Rcpts) != 5 || tx.Rcpts[3].Code != 501 || tx.Rcpts[4].Code != 501 {
		t.Fatalf("%+v", tx.Rcpts)
	}
}

func TestParsePath(t *testing.T) {
	cases := []struct {
		arg, kw, addr string
		params        map[string]string
		ok            bool
	}{
		{"FROM:<a@b>", "FROM", "a@b", map[string]string{}, true},
		{"from:<>", "FROM", "", map[string]string{}, true},
		{"FROM: <a@b>  SIZE=10  BODY=8BITMIME", "FROM", "a@b", map[string]string{"SIZE": "10", "BODY": "8BITMIME"}, true},
		{"FROM:<a@b> auth=<>", "FROM", "a@b", map[string]string{"AUTH": "<>"}, true},
		{"FROM : <a@b>", "FROM", "a@b", map[string]string{}, true},
		{"TO:<a@b> ORCPT=utf-8;x=y", "TO", "a@b", map[string]string{"ORCPT": "utf-8;x=y"}, true},
		{"TO:a@b", "TO", "a@b", map[string]string{}, true},
		{`TO:<"a\"> b"@c>`, "TO", `"a\"> b"@c`, map[string]string{}, true},
		{"TO:<a@b", "TO", "", nil, false},
		{"FROM<a@b>", "FROM", "", nil, false},
		{"TO:<a@b>", "FROM", "", nil, false},
		{"", "FROM", "", nil, false},
	}
	for _, tc := range cases {
		addr, params, ok := parsePath(tc.arg, tc.kw)
		if addr != tc.addr || ok != tc.ok || !reflect.DeepEqual(params, tc.params) {
			t.Errorf("parsePath(%q,%q) = %q %v %v; want %q %v %v", tc.arg, tc.kw, addr, params, ok, tc.addr, tc.params, tc.ok)
		}
	}
}

func TestTransactionBookkeeping(t *testing.T) {
	s := newServer(t, Config{})
	c := dialRaw(t, s)
	c.expect(220)
	c.cmd("MAIL FROM:<early@src.test>", 503) // txn 1: before HELO
	c.cmd("RCPT TO:<x@y.test>", 503)
	c.cmd("HELO a.test", 250)
	c.cmd("MAIL FROM:<one@src.test>", 250)    // txn 2
	c.cmd("MAIL FROM:<nested@src.test>", 503) // txn 3: nested, txn 2 stays active
	c.cmd("RCPT TO:<r@dst.test>", 250)        // belongs to txn 2
	c.cmd("RSET", 250)                        // resets txn 2
	c.cmd("RSET", 250)                        // harmless
	c.cmd("MAIL FROM:<two@src.test>", 250)    // txn 4
	c.cmd("EHLO again.test", 250)             // resets txn 4
	c.cmd("MAIL FROM:<three@src.test>", 250)  // txn 5
	c.cmd("RCPT TO:<r@dst.test>", 250)
	c.cmd("DATA", 354)
	c.write([]byte(".\r\n")) // empty payload
	c.expect(250)
	c.cmd("RCPT TO:<late@dst.test>", 503) // transaction is over
	c.cmd("QUIT", 221)
	waitIdle(t, s)
	cr := oneConn(t, s)
	type row struct {
		n, mail int
		reset   bool
		commit  bool
		nr      int
	}
	var got []row
	for _, tx := range cr.Txns {
		got = append(got, row{tx.N, tx.MailCode, tx.Reset, tx.Committed, len(tx.Rcpts)})
	}
	want := []row{{1, 503, false, false, 0}, {2, 250, true, false, 1}, {3, 503, false, false, 0}, {4, 250, true, false, 0}, {5, 250, false, true, 1}}
	if !reflect.DeepEqual(got, want) {
		t.Fatalf("got %+v\nwant %+v", got, want)
	}
	if tx := cr.Txns[4]; tx.Data == nil || len(tx.Data) != 0 || !tx.DataReceived {
		t.Fatalf("empty payload: %+v", tx)
	}
	if cr.Helo != "again.test" || !cr.HeloIsEHLO {
		t.Fatalf("%+v", cr)
	}
}

func TestConcurrentConnections(t *testing.T) {
	const n = 12
	barrier := make(chan struct{})
	var arrived sync.WaitGroup
	arrived.Add(n)
	s := newServer(t, Config{PIPELINING: true, Script: func(ev Event) *Action {
		if ev.Stage == StageDot {
			arrived.Done()
			return &Action{Hold: barrier}
		}
		return nil
	}})
	var wg sync.WaitGroup
	errs := make(chan error, n)
	for i := 0; i < n; i++ {
		wg.Add(1)
		go func(i int) {
			defer wg.Done()
			c, err := smtp.Dial(s.Addr())
			if err != nil {
				errs <- err
				return
			}
			defer c.Close()
			from := fmt.Sprintf("s%d@src.test", i)
			if err := c.Mail(from); err != nil {
				errs <- err
				return
			}
			if err := c.Rcpt("r@dst.test"); err != nil {
				errs <- err
				return
			}
			w, err := c.Data()
			if err != nil {
				errs <- err
				return
			}
			fmt.Fprintf(w, "from %s\r\n", from)
			if err := w.Close(); err != nil {
				errs <- err
				return
			}
			errs <- c.Quit()
		}(i)
	}
	// All n connections are simultaneously parked at the dot.
	arrived.Wait()
	if s.ConnCount() != n || s.TotalConns() != n {
		t.Fatalf("counts %d %d", s.ConnCount(), s.TotalConns())
	}
	// Hammer the observers while handlers are live.
	stop := make(chan struct{})
	var obs sync.WaitGroup
	obs.Add(1)
	go func() {
		defer obs.Done()
		for {
			select {
			case <-stop:
				return
			default:
				s.Transcript()
				s.Txns()
				s.ConnCount()
			}
		}
	}()
	close(barrier)
	wg.Wait()
	close(stop)
	obs.Wait()
	for i := 0; i < n; i++ {
		if err := <-errs; err != nil {
			t.Fatal(err)
		}
	}
	waitIdle(t, s)
	tr := s.Transcript()
	if len(tr) != n {
		t.Fatalf("%d conns", len(tr))
	}
	seen := map[string]bool{}
	for i, cr := range tr {
		if cr.ID != i+1 || len(cr.Txns) != 1 || !cr.Txns[0].Committed || cr.Txns[0].Conn != cr.ID {
			t.Fatalf("%+v", cr)
		}
		if string(cr.Txns[0].Data) != "from "+cr.Txns[0].From+"\r\n" {
			t.Fatalf("cross-talk: %q vs %q", cr.Txns[0].Data, cr.Txns[0].From)
		}
		seen[cr.Txns[0].From] = true
	}
	if len(seen) != n {
		t.Fatalf("senders %v", seen)
	}
}

func TestListenAddr(t *testing.T) {
	s, err := New(Config{ListenAddr: "127.0.0.2:0"})
	if err != nil {
		t.Skipf("127.0.0.2 not usable here: %v", err)
	}
	defer s.Close()
	if !strings.HasPrefix(s.Addr(), "127.0.0.2:") {
		t.Fatalf("Addr %q", s.Addr())
	}
	c := dialRaw(t, s)
	c.expect(220)
	c.cmd("QUIT", 221)
	waitIdle(t, s)
	if cr := oneConn(t, s); !strings.HasPrefix(cr.LocalAddr, "127.0.0.2:") || cr.RemoteAddr == "" {
		t.Fatalf("%+v", cr)
	}
}

func TestScriptForces354OutsideTransaction(t *testing.T) {
	s := newServer(t, Config{Script: scriptFor(StageData, &Action{Code: 354, Text: []string{"go on"}})})
	c := dialRaw(t, s)
	c.expect(220)
	c.cmd("EHLO a.test", 250)
	c.cmd("DATA", 354)
	c.write([]byte("orphan\r\n.\r\n"))
	c.expect(250)
	c.cmd("QUIT", 221)
	waitIdle(t, s)
	tx := oneConn(t, s).Txns[0]
	if tx.MailCode != 0 || string(tx.Data) != "orphan\r\n" || !tx.Committed || tx.CommittedRcpts != nil {
		t.Fatalf("%+v", tx)
	}
}

func TestRawGarbageAtDotCommitsNothing(t *testing.T) {
	s := newServer(t, Config{Script: scriptFor(StageDot, &Action{Raw: []byte("garbage, no code\r\n")})})
	c := dialRaw(t, s)
	c.expect(220)
	c.cmd("EHLO a.test", 250)
	c.cmd("MAIL FROM:<a@b.test>", 250)
	c.cmd("RCPT TO:<c@d.test>", 250)
	c.cmd("DATA", 354)
	c.write([]byte("x\r\n.\r\n"))
	c.c.SetReadDeadline(time.Now().Add(5 * time.Second))
	if l, err := c.br.ReadString('\n'); err != nil || l != "garbage, no code\r\n" {
		t.Fatalf("%q %v", l, err)
	}
	c.cmd("QUIT", 221)
	waitIdle(t, s)
	cr := oneConn(t, s)
	tx := cr.Txns[0]
	if tx.Committed || tx.CommittedRcpts != nil || tx.DotCode != 0 || !tx.DataReceived {
		t.Fatalf("%+v", tx)
	}
	dot := cr.Commands[5]
	if dot.Line != "." || dot.ReplyCode != 0 || dot.Reply != "garbage, no code\r\n" || dot.ReplyAt.IsZero() {
		t.Fatalf("%+v", dot)
	}
}
