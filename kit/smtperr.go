package verifkit

import "sync"

// SMTPErrObs is one observed exterrors.SMTPError (as seen by its Fields
// method). In the deduplicated view Count is the number of observations with
// the same (Code, Enh, Msg); the other fields are those of the first one.
type SMTPErrObs struct {
	Code    int
	Enh     [3]int
	Msg     string
	Check   string
	Target  string
	Reason  string
	HasMisc bool
	Count   int
}

const (
	// SMTPErrLogCap bounds the raw observation log; further observations
	// are only counted (in the dedup set and in SMTPErrorTotal).
	SMTPErrLogCap = 100000
	// SMTPErrKeyCap bounds the number of distinct (code, enh, msg) keys.
	SMTPErrKeyCap = 100000
)

type smtpErrKey struct {
	code int
	enh  [3]int
	msg  string
}

var smtpErr struct {
	mu      sync.Mutex
	log     []SMTPErrObs
	idx     map[smtpErrKey]int // -> index into dedup
	dedup   []SMTPErrObs
	total   int
	dropped int
}

// ObserveSMTPError is called by the instrumented (*SMTPError).Fields.
func ObserveSMTPError(code int, enh [3]int, msg, check, target, reason string, hasMisc bool) {
	o := SMTPErrObs{Code: code, Enh: enh, Msg: msg, Check: check, Target: target, Reason: reason, HasMisc: hasMisc, Count: 1}
	k := smtpErrKey{code, enh, msg}
	smtpErr.mu.Lock()
	defer smtpErr.mu.Unlock()
	smtpErr.total++
	if len(smtpErr.log) < SMTPErrLogCap {
		smtpErr.log = append(smtpErr.log, o)
	}
	if i, ok := smtpErr.idx[k]; ok {
		smtpErr.dedup[i].Count++
		return
	}
	if len(smtpErr.dedup) >= SMTPErrKeyCap {
		smtpErr.dropped++
		return
	}
	if smtpErr.idx == nil {
		smtpErr.idx = map[smtpErrKey]int{}
	}
	smtpErr.idx[k] = len(smtpErr.dedup)
	smtpErr.dedup = append(smtpErr.dedup, o)
}

// SMTPErrorObservations returns a copy of the deduplicated set (keyed by
// code, enhanced code and message) in first-seen order, with counts.
func SMTPErrorObservations() []SMTPErrObs {
	smtpErr.mu.Lock()
	defer smtpErr.mu.Unlock()
	return append([]SMTPErrObs(nil), smtpErr.dedup...)
}

// SMTPErrorLog returns a copy of the raw observation log in arrival order
// (at most SMTPErrLogCap entries, Count is always 1).
func SMTPErrorLog() []SMTPErrObs {
	smtpErr.mu.Lock()
	defer smtpErr.mu.Unlock()
	return append([]SMTPErrObs(nil), smtpErr.log...)
}

// SMTPErrorTotal is the number of ObserveSMTPError calls since the last
// reset; SMTPErrorDropped the number of those that could not be entered into
// the dedup set because SMTPErrKeyCap was reached.
func SMTPErrorTotal() int {
	smtpErr.mu.Lock()
	defer smtpErr.mu.Unlock()
	return smtpErr.total
}

func SMTPErrorDropped() int {
	smtpErr.mu.Lock()
	defer smtpErr.mu.Unlock()
	return smtpErr.dropped
}

// ResetSMTPErrorObservations clears log, dedup set and counters.
func ResetSMTPErrorObservations() {
	smtpErr.mu.Lock()
	defer smtpErr.mu.Unlock()
	smtpErr.log = nil
	smtpErr.idx = nil
	smtpErr.dedup = nil
	smtpErr.total = 0
	smtpErr.dropped = 0
}
