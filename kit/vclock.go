package verifkit

import (
	"sync/atomic"
	"time"
)

// virtualNow is nil while the virtual clock is disabled.
var virtualNow atomic.Pointer[time.Time]

// Now returns the virtual time when the virtual clock is enabled and
// time.Now() otherwise. Instrumented code (kind "vclock") calls it instead of
// time.Now / time.Since / time.Until. Virtual times carry no monotonic
// reading.
func Now() time.Time {
	if p := virtualNow.Load(); p != nil {
		return *p
	}
	return time.Now()
}

// SetVirtualClock enables the virtual clock and sets it to t.
func SetVirtualClock(t time.Time) {
	t = t.Round(0) // strip monotonic reading
	virtualNow.Store(&t)
}

// AdvanceClock moves the virtual clock by d (which may be negative). If the
// virtual clock is disabled it is first enabled at the current real time.
func AdvanceClock(d time.Duration) {
	for {
		old := virtualNow.Load()
		var base time.Time
		if old != nil {
			base = *old
		} else {
			base = time.Now().Round(0)
		}
		nt := base.Add(d)
		if virtualNow.CompareAndSwap(old, &nt) {
			return
		}
	}
}

// DisableVirtualClock makes Now return real time again.
func DisableVirtualClock() { virtualNow.Store(nil) }

// VirtualClockEnabled reports whether Now currently returns virtual time.
func VirtualClockEnabled() bool { return virtualNow.Load() != nil }
