package verifkit

import (
	"fmt"
	"sync"
	"testing"
	"time"
)

func TestVirtualClock(t *testing.T) {
	defer DisableVirtualClock()
	if VirtualClockEnabled() {
		t.Fatal("enabled by default")
	}
	if d := time.Since(Now()); d < 0 || d > time.Second {
		t.Fatalf("real Now off by %v", d)
	}
	base := time.Date(2030, 1, 2, 3, 4, 5, 0, time.UTC)
	SetVirtualClock(base)
	if !VirtualClockEnabled() || !Now().Equal(base) {
		t.Fatalf("Now = %v", Now())
	}
	AdvanceClock(90 * time.Minute)
	if got := Now().Sub(base); got != 90*time.Minute {
		t.Fatalf("advanced by %v", got)
	}
	AdvanceClock(-30 * time.Minute)
	if got := Now().Sub(base); got != time.Hour {
		t.Fatalf("advanced by %v", got)
	}
	// time.Since(x) is rewritten to Now().Sub(x)
	if got := Now().Sub(base.Add(-time.Hour)); got != 2*time.Hour {
		t.Fatalf("since = %v", got)
	}
	DisableVirtualClock()
	if d := time.Since(Now()); d < 0 || d > time.Second {
		t.Fatalf("real Now off by %v after disable", d)
	}
	// AdvanceClock on a disabled clock enables it at real time.
	AdvanceClock(24 * time.Hour)
	if d := time.Until(Now()); d < 23*time.Hour || d > 25*time.Hour {
		t.Fatalf("advance from disabled: %v", d)
	}
}

func TestVirtualClockConcurrentAdvance(t *testing.T) {
	defer DisableVirtualClock()
	base := time.Unix(1000, 0)
	SetVirtualClock(base)
	var wg sync.WaitGroup
	for g := 0; g < 8; g++ {
		wg.Add(1)
		go func() {
			defer wg.Done()
			for i := 0; i < 1000; i++ {
				AdvanceClock(time.Second)
				_ = Now()
			}
		}()
	}
	wg.Wait()
	if got := Now().Sub(base); got != 8000*time.Second {
		t.Fatalf("lost updates: %v", got)
	}
}

func TestSMTPErrorObservations(t *testing.T) {
	defer ResetSMTPErrorObservations()
	ResetSMTPErrorObservations()
	ObserveSMTPError(451, [3]int{4, 4, 0}, "try later", "", "remote", "dial failed", false)
	ObserveSMTPError(451, [3]int{4, 4, 0}, "try later", "", "remote", "other reason", true)
	ObserveSMTPError(550, [3]int{5, 7, 1}, "no", "spf", "", "", false)
	ObserveSMTPError(451, [3]int{5, 4, 0}, "try later", "", "", "", false) // differs in enh only

	obs := SMTPErrorObservations()
	if len(obs) != 3 {
		t.Fatalf("dedup set: %+v", obs)
	}
	if o := obs[0]; o.Code != 451 || o.Enh != [3]int{4, 4, 0} || o.Msg != "try later" || o.Target != "remote" || o.Reason != "dial failed" || o.HasMisc || o.Count != 2 {
		t.Fatalf("obs[0] = %+v", o)
	}
	if o := obs[1]; o.Code != 550 || o.Check != "spf" || o.Count != 1 {
		t.Fatalf("obs[1] = %+v", o)
	}
	if o := obs[2]; o.Enh != [3]int{5, 4, 0} || o.Count != 1 {
		t.Fatalf("obs[2] = %+v", o)
	}
	obs[0].Count = 77
	if SMTPErrorObservations()[0].Count != 2 {
		t.Fatal("not a copy")
	}
	log := SMTPErrorLog()
	if len(log) != 4 || log[1].Reason != "other reason" || !log[1].HasMisc {
		t.Fatalf("log = %+v", log)
	}
	if SMTPErrorTotal() != 4 || SMTPErrorDropped() != 0 {
		t.Fatal("totals")
	}
	ResetSMTPErrorObservations()
	if len(SMTPErrorObservations()) != 0 || len(SMTPErrorLog()) != 0 || SMTPErrorTotal() != 0 {
		t.Fatal("reset")
	}
}

func TestSMTPErrorObservationsConcurrent(t *testing.T) {
	defer ResetSMTPErrorObservations()
	ResetSMTPErrorObservations()
	var wg sync.WaitGroup
	for g := 0; g < 8; g++ {
		wg.Add(1)
		go func() {
			defer wg.Done()
			for i := 0; i < 500; i++ {
				ObserveSMTPError(400+i%10, [3]int{4, 0, 0}, fmt.Sprint("m", i%10), "", "", "", false)
			}
		}()
	}
	wg.Wait()
	obs := SMTPErrorObservations()
	if len(obs) != 10 {
		t.Fatalf("%d keys", len(obs))
	}
	sum := 0
	for _, o := range obs {
		sum += o.Count
	}
	if sum != 4000 || SMTPErrorTotal() != 4000 {
		t.Fatalf("sum = %d", sum)
	}
}
