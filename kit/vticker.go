package verifkit

import (
	"sync"
	"sync/atomic"
	"time"
)

// Virtual tickers and timers. Instrumented code (kind "vticker") calls
// verifkit.NewTicker / Tick / NewTimer / After instead of the functions of
// package time and gets objects with the same API (field C, Stop, Reset).
//
// An object created while the virtual clock is ENABLED is virtual: it never
// fires on its own. The harness fires it at a logical point of its choosing,
//   - FireTickers(): every live virtual ticker ticks once now, whatever its
//     period (the harness decides that "the period has elapsed");
//   - FireDue() / AdvanceClockAndFire(d): every live virtual ticker or timer
//     whose due time is not after the virtual clock fires (a ticker is
//     re-armed one period after the instant it fired at, like time.Ticker
//     it delivers at most one pending tick).
//
// A tick is delivered like package time delivers it: a non-blocking send into
// a channel with room for one value; if the previous tick was not received
// yet the new one is dropped. Stop and Reset discard an undelivered value
// (Go 1.23 semantics: no stale tick after Stop/Reset returned).
//
// An object created while the virtual clock is DISABLED wraps the real
// time.Ticker / time.Timer: instrumented code behaves like the original.

type vtimer struct {
	c      chan time.Time
	period time.Duration // ticker period; 0 for a one-shot timer
	// guarded by vt.mu
	due    time.Time
	active bool
}

var vt struct {
	mu   sync.Mutex
	live map[*vtimer]struct{}

	created   atomic.Int64 // virtual tickers+timers created
	delivered atomic.Int64 // values put into a channel
	dropped   atomic.Int64 // ticks dropped because the previous one was still pending
	stops     atomic.Int64 // Stop calls on virtual objects
	discarded atomic.Int64 // delivered values thrown away by Stop/Reset (never received)
}

func vtRegister(v *vtimer) {
	vt.mu.Lock()
	if vt.live == nil {
		vt.live = map[*vtimer]struct{}{}
	}
	vt.live[v] = struct{}{}
	vt.mu.Unlock()
	vt.created.Add(1)
}

// deliverLocked puts now into v's channel unless a value is pending.
func (v *vtimer) deliverLocked(now time.Time) bool {
	select {
	case v.c <- now:
		vt.delivered.Add(1)
		return true
	default:
		vt.dropped.Add(1)
		return false
	}
}

func (v *vtimer) drainLocked() bool {
	select {
	case <-v.c:
		vt.discarded.Add(1)
		return true
	default:
		return false
	}
}

// Ticker mirrors time.Ticker.
type Ticker struct {
	C    <-chan time.Time
	real *time.Ticker
	v    *vtimer
}

// NewTicker mirrors time.NewTicker (it panics if d <= 0).
func NewTicker(d time.Duration) *Ticker {
	if d <= 0 {
		panic("non-positive interval for NewTicker")
	}
	if !VirtualClockEnabled() {
		rt := time.NewTicker(d)
		return &Ticker{C: rt.C, real: rt}
	}
	v := &vtimer{c: make(chan time.Time, 1), period: d, due: Now().Add(d), active: true}
	vtRegister(v)
	return &Ticker{C: v.c, v: v}
}

// Stop mirrors (*time.Ticker).Stop: no more ticks; the channel is not closed.
func (t *Ticker) Stop() {
	if t.real != nil {
		t.real.Stop()
		return
	}
	vt.stops.Add(1)
	vt.mu.Lock()
	t.v.active = false
	delete(vt.live, t.v)
	t.v.drainLocked()
	vt.mu.Unlock()
}

// Reset mirrors (*time.Ticker).Reset.
func (t *Ticker) Reset(d time.Duration) {
	if d <= 0 {
		panic("non-positive interval for Ticker.Reset")
	}
	if t.real != nil {
		t.real.Reset(d)
		return
	}
	vt.mu.Lock()
	t.v.period = d
	t.v.due = Now().Add(d)
	t.v.active = true
	if vt.live == nil {
		vt.live = map[*vtimer]struct{}{}
	}
	vt.live[t.v] = struct{}{}
	t.v.drainLocked()
	vt.mu.Unlock()
}

// Tick mirrors time.Tick.
func Tick(d time.Duration) <-chan time.Time {
	if d <= 0 {
		return nil
	}
	return NewTicker(d).C
}

// Timer mirrors time.Timer (channel timers only; time.AfterFunc is not
// rewritten by the instrumentation).
type Timer struct {
	C    <-chan time.Time
	real *time.Timer
	v    *vtimer
}

// NewTimer mirrors time.NewTimer.
func NewTimer(d time.Duration) *Timer {
	if !VirtualClockEnabled() {
		rt := time.NewTimer(d)
		return &Timer{C: rt.C, real: rt}
	}
	v := &vtimer{c: make(chan time.Time, 1), due: Now().Add(d), active: true}
	vtRegister(v)
	return &Timer{C: v.c, v: v}
}

// Stop mirrors (*time.Timer).Stop: true if the call stopped the timer before
// its value was received.
func (t *Timer) Stop() bool {
	if t.real != nil {
		return t.real.Stop()
	}
	vt.stops.Add(1)
	vt.mu.Lock()
	defer vt.mu.Unlock()
	was := t.v.active
	t.v.active = false
	delete(vt.live, t.v)
	if t.v.drainLocked() {
		was = true
	}
	return was
}

// Reset mirrors (*time.Timer).Reset.
func (t *Timer) Reset(d time.Duration) bool {
	if t.real != nil {
		return t.real.Reset(d)
	}
	vt.mu.Lock()
	defer vt.mu.Unlock()
	was := t.v.active
	if t.v.drainLocked() {
		was = true
	}
	t.v.due = Now().Add(d)
	t.v.active = true
	if vt.live == nil {
		vt.live = map[*vtimer]struct{}{}
	}
	vt.live[t.v] = struct{}{}
	return was
}

// After mirrors time.After.
func After(d time.Duration) <-chan time.Time { return NewTimer(d).C }

// ---- harness side ----------------------------------------------------------

// FireTickers makes every live virtual TICKER tick once, now, whatever its
// period. It returns the number of tickers that took the tick (a ticker
// whose previous tick is still pending drops it, like time.Ticker does).
func FireTickers() int {
	now := Now()
	n := 0
	vt.mu.Lock()
	for v := range vt.live {
		if v.period == 0 || !v.active {
			continue
		}
		if v.deliverLocked(now) {
			n++
		}
		v.due = now.Add(v.period)
	}
	vt.mu.Unlock()
	return n
}

// FireDue fires every live virtual ticker and timer whose due time is not
// after the virtual clock and returns the number of values delivered. A
// ticker ticks at most once per call and is re-armed one period after now.
func FireDue() int {
	now := Now()
	n := 0
	vt.mu.Lock()
	for v := range vt.live {
		if !v.active || v.due.After(now) {
			continue
		}
		if v.deliverLocked(now) {
			n++
		}
		if v.period > 0 {
			v.due = now.Add(v.period)
		} else {
			v.active = false
			delete(vt.live, v)
		}
	}
	vt.mu.Unlock()
	return n
}

// AdvanceClockAndFire moves the virtual clock by d and then fires what became
// due (FireDue).
func AdvanceClockAndFire(d time.Duration) int {
	AdvanceClock(d)
	return FireDue()
}

// PendingTicks is the number of live virtual tickers/timers whose delivered
// value was not received yet.
func PendingTicks() int {
	n := 0
	vt.mu.Lock()
	for v := range vt.live {
		if v.active && len(v.c) > 0 {
			n++
		}
	}
	vt.mu.Unlock()
	return n
}

// LiveTickers is the number of live (created, not stopped) virtual tickers.
func LiveTickers() int {
	n := 0
	vt.mu.Lock()
	for v := range vt.live {
		if v.active && v.period > 0 {
			n++
		}
	}
	vt.mu.Unlock()
	return n
}

// ForgetTickers deactivates every live virtual ticker and timer (they never
// fire again) and returns how many there were. A harness calls it between
// cases so that objects leaked by an earlier case (e.g. goroutines of a
// confirmed hang) do not take part in later ones.
func ForgetTickers() int {
	vt.mu.Lock()
	n := len(vt.live)
	for v := range vt.live {
		v.active = false
		delete(vt.live, v)
	}
	vt.mu.Unlock()
	return n
}

// TicksDiscarded is the number of delivered values that Stop/Reset threw away
// before anybody received them — since process start.
func TicksDiscarded() int64 { return vt.discarded.Load() }

// TickerStats: virtual objects created, values delivered, ticks dropped
// (previous one still pending), Stop calls — since process start.
func TickerStats() (created, delivered, dropped, stops int64) {
	return vt.created.Load(), vt.delivered.Load(), vt.dropped.Load(), vt.stops.Load()
}
