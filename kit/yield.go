// Package verifkit is the runtime support targeted by the source
// instrumentation tool (/verif/tools/instrument). It is stdlib-only so that
// any package of the system under test may import it.
package verifkit

import (
	"hash/fnv"
	"runtime"
	"sync"
	"sync/atomic"
	"time"
)

// PlanPoint selects the Occ-th (1-based) arrival, counted globally over all
// goroutines since the plan was installed, at the yield site Site.
type PlanPoint struct {
	Site string
	Occ  int
}

// Plan is a delay-bounded schedule perturbation: every goroutine that hits
// one of Points is delayed logically, i.e. until
//   - the global yield counter advanced by Advance further events (other
//     goroutines made progress), or
//   - no yield event happened anywhere for Quiet (everybody else is blocked
//     or done), or
//   - Cap elapsed (hard upper bound).
//
// Zero values select the defaults (DefaultAdvance, DefaultQuiet, DefaultCap).
type Plan struct {
	Points  []PlanPoint
	Advance int
	Quiet   time.Duration
	Cap     time.Duration
}

const (
	DefaultAdvance = 8
	DefaultQuiet   = 2 * time.Millisecond
	DefaultCap     = 20 * time.Millisecond

	// TraceCap is the maximal number of yield events kept in the trace.
	// Later events are still counted but neither stored nor hashed.
	TraceCap = 4096
)

type pointKey struct {
	site string
	occ  int
}

var yield struct {
	// disabled != 0: Yield is a pure no-op (one atomic load).
	disabled atomic.Int32
	// count is the global number of yield events.
	count atomic.Uint64
	// last is the monotonic timestamp (ns since base) of the latest event.
	last atomic.Int64

	// random mode: rndOneIn == 0 means off.
	rndOneIn atomic.Int64
	rndSeed  atomic.Uint64
	rndCtr   atomic.Uint64

	mu       sync.Mutex
	hits     map[string]int
	trace    []string
	points   map[pointKey]bool // nil when no plan / empty plan
	advance  uint64
	quiet    time.Duration
	cap      time.Duration
	planHits int
}

var yieldBase = time.Now()

func monoNow() int64 { return int64(time.Since(yieldBase)) }

func init() {
	yield.hits = map[string]int{}
}

// Yield is called by instrumented code immediately before a synchronisation
// operation. It counts the event, records it in the trace, applies the
// installed Plan (if the event is a planned point the calling goroutine is
// delayed) and finally applies the random yield mode.
func Yield(site string) {
	if yield.disabled.Load() != 0 {
		return
	}
	now := monoNow()
	yield.mu.Lock()
	n := yield.count.Add(1)
	yield.last.Store(now)
	h := yield.hits[site] + 1
	yield.hits[site] = h
	if len(yield.trace) < TraceCap {
		yield.trace = append(yield.trace, site)
	}
	delay := false
	var advance uint64
	var quiet, hardCap time.Duration
	if yield.points != nil && yield.points[pointKey{site, h}] {
		delay = true
		yield.planHits++
		advance, quiet, hardCap = yield.advance, yield.quiet, yield.cap
	}
	yield.mu.Unlock()

	if delay {
		waitLogical(n, now, advance, quiet, hardCap)
	}

	if oneIn := yield.rndOneIn.Load(); oneIn != 0 {
		x := splitmix64(yield.rndSeed.Load() + yield.rndCtr.Add(1)*0x9e3779b97f4a7c15)
		if oneIn > 0 {
			if x%uint64(oneIn) == 0 {
				runtime.Gosched()
			}
		} else if x%uint64(-oneIn) == 0 {
			time.Sleep(50 * time.Microsecond)
		}
	}
}

// waitLogical blocks the calling goroutine until other goroutines produced
// `advance` further yield events, or nothing happened for `quiet`, or
// `hardCap` elapsed.
func waitLogical(self uint64, start int64, advance uint64, quiet, hardCap time.Duration) {
	poll := quiet / 8
	if poll < 20*time.Microsecond {
		poll = 20 * time.Microsecond
	}
	if poll > 250*time.Microsecond {
		poll = 250 * time.Microsecond
	}
	for {
		// Let runnable goroutines go first; then sleep for a poll interval so
		// that goroutines on other Ps get real time as well.
		runtime.Gosched()
		if yield.count.Load()-self >= advance {
			return
		}
		now := monoNow()
		if time.Duration(now-start) >= hardCap {
			return
		}
		if time.Duration(now-yield.last.Load()) >= quiet {
			return
		}
		time.Sleep(poll)
	}
}

func splitmix64(x uint64) uint64 {
	x += 0x9e3779b97f4a7c15
	x = (x ^ (x >> 30)) * 0xbf58476d1ce4e5b9
	x = (x ^ (x >> 27)) * 0x94d049bb133111eb
	return x ^ (x >> 31)
}

// SetPlan installs p (nil: no delays, events are still counted and traced)
// and resets all counters, the trace and PlanHits. The plan is copied.
func SetPlan(p *Plan) {
	yield.mu.Lock()
	defer yield.mu.Unlock()
	resetCountersLocked()
	yield.points = nil
	yield.advance, yield.quiet, yield.cap = DefaultAdvance, DefaultQuiet, DefaultCap
	if p == nil {
		return
	}
	if p.Advance > 0 {
		yield.advance = uint64(p.Advance)
	}
	if p.Quiet > 0 {
		yield.quiet = p.Quiet
	}
	if p.Cap > 0 {
		yield.cap = p.Cap
	}
	if len(p.Points) > 0 {
		yield.points = make(map[pointKey]bool, len(p.Points))
		for _, pt := range p.Points {
			occ := pt.Occ
			if occ < 1 {
				occ = 1
			}
			yield.points[pointKey{pt.Site, occ}] = true
		}
	}
}

func resetCountersLocked() {
	yield.count.Store(0)
	yield.last.Store(monoNow())
	yield.hits = map[string]int{}
	yield.trace = yield.trace[:0]
	yield.planHits = 0
}

// ResetYield restores the initial state: no plan, no random mode, counters
// and trace cleared, Yield enabled.
func ResetYield() {
	yield.rndOneIn.Store(0)
	SetPlan(nil)
	yield.disabled.Store(0)
}

// SetYieldEnabled(false) turns Yield into a pure no-op (a single atomic
// load): nothing is counted, traced or delayed. Useful for runs under the
// race detector, because the bookkeeping of an enabled Yield takes a global
// mutex and thereby adds happens-before edges between all goroutines which
// can hide data races from -race. Enabled is the default.
func SetYieldEnabled(on bool) {
	if on {
		yield.disabled.Store(0)
	} else {
		yield.disabled.Store(1)
	}
}

// SetRandomYield configures the stress mode: with oneIn > 0 every Yield call
// does runtime.Gosched() with probability 1/oneIn; with oneIn < 0 it sleeps
// ~50µs with probability 1/-oneIn; oneIn == 0 switches the mode off. The
// decision sequence is a splitmix64 stream over (seed, atomic counter).
func SetRandomYield(seed uint64, oneIn int) {
	yield.rndSeed.Store(seed)
	yield.rndCtr.Store(0)
	yield.rndOneIn.Store(int64(oneIn))
}

// PlanHits reports how many planned points actually fired since SetPlan.
func PlanHits() int {
	yield.mu.Lock()
	defer yield.mu.Unlock()
	return yield.planHits
}

// SiteHits returns a copy of the per-site hit counters since SetPlan.
func SiteHits() map[string]int {
	yield.mu.Lock()
	defer yield.mu.Unlock()
	m := make(map[string]int, len(yield.hits))
	for k, v := range yield.hits {
		m[k] = v
	}
	return m
}

// Trace returns a copy of the recorded site sequence (global order, at most
// TraceCap entries).
func Trace() []string {
	yield.mu.Lock()
	defer yield.mu.Unlock()
	return append([]string(nil), yield.trace...)
}

// TraceLen is the number of recorded trace entries (<= TraceCap).
func TraceLen() int {
	yield.mu.Lock()
	defer yield.mu.Unlock()
	return len(yield.trace)
}

// TraceHash is the FNV-1a hash of the recorded site sequence.
func TraceHash() uint64 {
	yield.mu.Lock()
	defer yield.mu.Unlock()
	h := fnv.New64a()
	for _, s := range yield.trace {
		h.Write([]byte(s))
		h.Write([]byte{0})
	}
	return h.Sum64()
}

// YieldCount is the global number of yield events since SetPlan.
func YieldCount() uint64 { return yield.count.Load() }
