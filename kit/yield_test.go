package verifkit

import (
	"fmt"
	"sync"
	"testing"
	"time"
)

func TestYieldCountsAndTrace(t *testing.T) {
	defer ResetYield()
	SetPlan(nil)
	seq := []string{"a:1", "b:2", "a:1", "c:3", "a:1"}
	for _, s := range seq {
		Yield(s)
	}
	if got := YieldCount(); got != 5 {
		t.Fatalf("YieldCount = %d, want 5", got)
	}
	h := SiteHits()
	if h["a:1"] != 3 || h["b:2"] != 1 || h["c:3"] != 1 || len(h) != 3 {
		t.Fatalf("SiteHits = %v", h)
	}
	h["a:1"] = 99 // must be a copy
	if SiteHits()["a:1"] != 3 {
		t.Fatal("SiteHits did not return a copy")
	}
	if TraceLen() != 5 {
		t.Fatalf("TraceLen = %d", TraceLen())
	}
	if got := fmt.Sprint(Trace()); got != fmt.Sprint(seq) {
		t.Fatalf("Trace = %v", got)
	}
	h1 := TraceHash()

	SetPlan(nil) // resets
	if YieldCount() != 0 || TraceLen() != 0 || len(SiteHits()) != 0 {
		t.Fatal("SetPlan did not reset")
	}
	for _, s := range seq {
		Yield(s)
	}
	if TraceHash() != h1 {
		t.Fatal("same sequence, different hash")
	}
	SetPlan(nil)
	for _, s := range []string{"b:2", "a:1", "a:1", "c:3", "a:1"} {
		Yield(s)
	}
	if TraceHash() == h1 {
		t.Fatal("different sequence, same hash")
	}
	if PlanHits() != 0 {
		t.Fatal("PlanHits without plan")
	}
}

func TestYieldTraceCap(t *testing.T) {
	defer ResetYield()
	SetPlan(nil)
	for i := 0; i < TraceCap+900; i++ {
		Yield("x:1")
	}
	if TraceLen() != TraceCap {
		t.Fatalf("TraceLen = %d, want %d", TraceLen(), TraceCap)
	}
	if YieldCount() != TraceCap+900 {
		t.Fatalf("YieldCount = %d", YieldCount())
	}
	if SiteHits()["x:1"] != TraceCap+900 {
		t.Fatalf("SiteHits = %v", SiteHits())
	}
}

func TestYieldDisabled(t *testing.T) {
	defer ResetYield()
	SetPlan(&Plan{Points: []PlanPoint{{"d:1", 1}}, Quiet: time.Second, Cap: 5 * time.Second})
	SetYieldEnabled(false)
	start := time.Now()
	Yield("d:1")
	if time.Since(start) > 500*time.Millisecond {
		t.Fatal("disabled Yield delayed")
	}
	if YieldCount() != 0 || PlanHits() != 0 || TraceLen() != 0 {
		t.Fatal("disabled Yield counted")
	}
	SetYieldEnabled(true)
}

// The planned delay must let another goroutine overtake: A is delayed at its
// site until B produced Advance further events; B records itself before its
// last event, hence strictly before A continues.
func TestPlanDelayLetsOtherGoroutineOvertake(t *testing.T) {
	defer ResetYield()
	for round := 0; round < 20; round++ {
		SetPlan(&Plan{
			Points:  []PlanPoint{{Site: "a:10", Occ: 1}},
			Advance: 4,
			Quiet:   10 * time.Second, // only Advance can release A
			Cap:     20 * time.Second,
		})
		var mu sync.Mutex
		var order []string
		record := func(s string) {
			mu.Lock()
			order = append(order, s)
			mu.Unlock()
		}
		aStarted := make(chan struct{})
		var wg sync.WaitGroup
		wg.Add(2)
		start := time.Now()
		go func() { // A
			defer wg.Done()
			close(aStarted)
			Yield("a:10")
			record("A")
		}()
		go func() { // B
			defer wg.Done()
			<-aStarted
			// Make sure A's event comes first so that all of B's events
			// count towards A's Advance.
			for SiteHits()["a:10"] == 0 {
				time.Sleep(50 * time.Microsecond)
			}
			Yield("b:1")
			Yield("b:2")
			Yield("b:3")
			record("B")
			Yield("b:4")
		}()
		wg.Wait()
		if el := time.Since(start); el > 5*time.Second {
			t.Fatalf("round %d: release took %v, expected release by Advance", round, el)
		}
		if fmt.Sprint(order) != "[B A]" {
			t.Fatalf("round %d: order = %v, want [B A]", round, order)
		}
		if PlanHits() != 1 {
			t.Fatalf("round %d: PlanHits = %d", round, PlanHits())
		}
		if YieldCount() != 5 {
			t.Fatalf("round %d: YieldCount = %d", round, YieldCount())
		}
	}
}

func TestPlanNoDelayWithoutMatch(t *testing.T) {
	defer ResetYield()
	SetPlan(&Plan{Points: []PlanPoint{{"s:1", 3}}, Quiet: 300 * time.Millisecond, Cap: time.Second})
	start := time.Now()
	Yield("s:1")
	Yield("s:1")
	Yield("other:1")
	if PlanHits() != 0 {
		t.Fatal("fired too early")
	}
	if el := time.Since(start); el > 250*time.Millisecond {
		t.Fatalf("unplanned yields took %v", el)
	}
	Yield("s:1") // third occurrence: lone goroutine -> released by Quiet
	el := time.Since(start)
	if PlanHits() != 1 {
		t.Fatalf("PlanHits = %d", PlanHits())
	}
	if el < 300*time.Millisecond || el > 900*time.Millisecond {
		t.Fatalf("third occurrence released after %v, want ~Quiet (300ms)", el)
	}
	Yield("s:1") // 4th: not planned
	if PlanHits() != 1 {
		t.Fatalf("PlanHits = %d", PlanHits())
	}
}

func TestPlanQuietReleaseDefault(t *testing.T) {
	defer ResetYield()
	SetPlan(&Plan{Points: []PlanPoint{{"q:1", 1}}}) // defaults: 8 / 2ms / 20ms
	start := time.Now()
	Yield("q:1")
	el := time.Since(start)
	if el < DefaultQuiet {
		t.Fatalf("released after %v, want >= %v", el, DefaultQuiet)
	}
	if PlanHits() != 1 {
		t.Fatal("no plan hit")
	}
}

func TestPlanCapRelease(t *testing.T) {
	defer ResetYield()
	SetPlan(&Plan{
		Points:  []PlanPoint{{"c:1", 1}},
		Advance: 1 << 30,          // never
		Quiet:   10 * time.Second, // never (background noise anyway)
		Cap:     30 * time.Millisecond,
	})
	stop := make(chan struct{})
	done := make(chan struct{})
	go func() {
		defer close(done)
		for {
			select {
			case <-stop:
				return
			default:
				Yield("noise:1")
				time.Sleep(200 * time.Microsecond)
			}
		}
	}()
	start := time.Now()
	Yield("c:1")
	el := time.Since(start)
	close(stop)
	<-done
	if el < 30*time.Millisecond || el > 5*time.Second {
		t.Fatalf("released after %v, want ~Cap (30ms)", el)
	}
}

func TestTwoPointPlan(t *testing.T) {
	defer ResetYield()
	SetPlan(&Plan{
		Points: []PlanPoint{{"p:1", 2}, {"p:2", 1}},
		Quiet:  time.Millisecond, Cap: 10 * time.Millisecond,
	})
	Yield("p:1")
	Yield("p:1")
	Yield("p:2")
	Yield("p:2")
	if PlanHits() != 2 {
		t.Fatalf("PlanHits = %d, want 2", PlanHits())
	}
}

func TestRandomYieldAndConcurrency(t *testing.T) {
	defer ResetYield()
	for _, oneIn := range []int{1, 3, -50} {
		SetPlan(&Plan{Points: []PlanPoint{{"r:3", 7}}, Quiet: 200 * time.Microsecond, Cap: time.Millisecond})
		SetRandomYield(42, oneIn)
		var wg sync.WaitGroup
		for g := 0; g < 8; g++ {
			wg.Add(1)
			go func(g int) {
				defer wg.Done()
				for i := 0; i < 200; i++ {
					Yield(fmt.Sprintf("r:%d", i%5))
				}
			}(g)
		}
		wg.Wait()
		if YieldCount() != 1600 {
			t.Fatalf("YieldCount = %d", YieldCount())
		}
		if PlanHits() != 1 {
			t.Fatalf("PlanHits = %d", PlanHits())
		}
		total := 0
		for _, n := range SiteHits() {
			total += n
		}
		if total != 1600 {
			t.Fatalf("sum of SiteHits = %d", total)
		}
	}
	SetRandomYield(0, 0)
}

func BenchmarkYieldNoPlan(b *testing.B) {
	defer ResetYield()
	SetPlan(nil)
	b.RunParallel(func(pb *testing.PB) {
		for pb.Next() {
			Yield("bench:1")
		}
	})
}

func BenchmarkYieldDisabled(b *testing.B) {
	defer ResetYield()
	SetYieldEnabled(false)
	b.RunParallel(func(pb *testing.PB) {
		for pb.Next() {
			Yield("bench:1")
		}
	})
}
