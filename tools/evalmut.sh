#!/bin/bash
# usage: tools/evalmut.sh <seeded dir with patch.diff+meta.json> [tier] [--confirm]
# Applies the patch in a scratch worktree of /repo, optionally confirms (suite passes, demo fails with / passes without),
# runs our check against it, prints the result, removes the worktree.
set -u
export GOFLAGS=-mod=mod GOPROXY=off GOSUMDB=off GOTOOLCHAIN=local
D=$(realpath "$1"); TIER=${2:-quick}; CONFIRM=${3:-}
PROP=$(python3 -c "import json,sys;print(json.load(open('$D/meta.json'))['property'])")
NAME=$(basename "$D")
WT=/tmp/eval-$NAME-$$
git -C /repo worktree add --detach "$WT" main >/dev/null 2>&1 || { echo "worktree failed"; exit 3; }
cleanup() { git -C /repo worktree remove --force "$WT" >/dev/null 2>&1; }
trap cleanup EXIT
DEMO=$(ls "$D"/*_test.go "$D"/*_test.go.txt 2>/dev/null | head -1)
DEMODIR=""
if [ -n "$DEMO" ]; then DEMODIR=$(python3 -c "import json;print(json.load(open('$D/meta.json')).get('demo_dir',''))"); fi
if [ "$CONFIRM" = "--confirm" ] && [ -n "$DEMO" ] && [ -n "$DEMODIR" ]; then
  cp "$DEMO" "$WT/$DEMODIR/zz_demo_test.go"
  (cd "$WT" && go test -vet=off -count=1 -run 'Demo' ./$DEMODIR/ >/tmp/evalmut-$$.log 2>&1); R0=$?
  echo "demo without patch: exit $R0"
fi
(cd "$WT" && (git apply "$D/patch.diff" || git apply -3 "$D/patch.diff")) || { echo "patch does not apply"; exit 3; }
if [ "$CONFIRM" = "--confirm" ]; then
  if [ -n "$DEMO" ] && [ -n "$DEMODIR" ]; then
    (cd "$WT" && go test -vet=off -count=1 -run 'Demo' ./$DEMODIR/ >/tmp/evalmut-$$.log 2>&1); R1=$?
    echo "demo with patch: exit $R1"; tail -5 /tmp/evalmut-$$.log; rm -f "$WT/$DEMODIR/zz_demo_test.go"
  fi
  if [ "${4:-}" = "--suite" ]; then (cd "$WT" && go test -vet=off -count=1 ./... 2>&1 | grep -v "no test files\|^ok\|pam" | head -20); echo "suite done (only non-ok lines shown above)"; fi
  rm -f /tmp/evalmut-$$.log
fi
cd /verif && VERIF_REPLAYS_DIR=/tmp/evalmut-replays VERIF_EVIDENCE_DIR=/tmp/evalmut-evidence VERIF_REPO="$WT" ./check "$PROP" "$TIER" > /tmp/evalmut-$NAME.out 2>&1; RC=$?
echo "== $NAME: check $PROP $TIER exit=$RC"; grep -E "^VIOLATION|signature:|^C[0-9]+ |INCONCLUSIVE" /tmp/evalmut-$NAME.out | head -12
