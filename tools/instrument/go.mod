module instrument

go 1.23
