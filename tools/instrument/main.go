// Command instrument rewrites selected Go source files of a repository for
// runtime verification and emits a `go build -overlay` file.
//
//	instrument -repo <repo root> -out <dir> -spec <spec.json>
//
// spec.json: [{"file":"internal/x/y.go","kinds":["yield","vclock"]}, ...]
//
// Kinds: yield, vclock, osshim, smtperr, vticker (see rewrite.go).
//
// All rewrites are purely textual insertions/replacements on the original
// line, so the rewritten file has the same line numbering as the original.
package main

import (
	"encoding/json"
	"flag"
	"fmt"
	"go/parser"
	"go/token"
	"os"
	"path/filepath"
	"strings"
)

type specEntry struct {
	File  string   `json:"file"`
	Kinds []string `json:"kinds"`
}

type fileError struct {
	File  string `json:"file"`
	Error string `json:"error"`
}

type overlay struct {
	Replace map[string]string `json:"Replace"`
}

func main() {
	os.Exit(run(os.Args[1:]))
}

func run(args []string) int {
	fs := flag.NewFlagSet("instrument", flag.ContinueOnError)
	repo := fs.String("repo", "", "repository root")
	out := fs.String("out", "", "output directory")
	specPath := fs.String("spec", "", "spec JSON file")
	if err := fs.Parse(args); err != nil {
		return 2
	}
	if *repo == "" || *out == "" || *specPath == "" || fs.NArg() != 0 {
		fmt.Fprintln(os.Stderr, "usage: instrument -repo <repo root> -out <dir> -spec <spec.json>")
		return 2
	}
	if err := process(*repo, *out, *specPath); err != nil {
		fmt.Fprintln(os.Stderr, "instrument:", err)
		return 1
	}
	return 0
}

func process(repo, out, specPath string) error {
	repoAbs, err := filepath.Abs(repo)
	if err != nil {
		return err
	}
	if st, err := os.Stat(repoAbs); err != nil || !st.IsDir() {
		return fmt.Errorf("repo %s is not a directory", repoAbs)
	}
	outAbs, err := filepath.Abs(out)
	if err != nil {
		return err
	}
	raw, err := os.ReadFile(specPath)
	if err != nil {
		return err
	}
	var spec []specEntry
	if err := json.Unmarshal(raw, &spec); err != nil {
		return fmt.Errorf("spec: %v", err)
	}
	if err := os.MkdirAll(outAbs, 0o777); err != nil {
		return err
	}

	ov := overlay{Replace: map[string]string{}}
	sites := []Site{}
	errs := []fileError{}
	dirNames := map[string]*Names{}

	for _, e := range spec {
		rel := filepath.ToSlash(filepath.Clean(e.File))
		srcPath := filepath.Join(repoAbs, filepath.FromSlash(rel))
		src, err := os.ReadFile(srcPath)
		if err != nil {
			errs = append(errs, fileError{File: e.File, Error: err.Error()})
			continue
		}
		dir := filepath.Dir(srcPath)
		names := dirNames[dir]
		if names == nil {
			names = collectDirNames(dir)
			dirNames[dir] = names
		}
		res, fsites, err := Rewrite(src, rel, e.Kinds, names)
		if err != nil {
			errs = append(errs, fileError{File: e.File, Error: err.Error()})
			continue
		}
		dst := filepath.Join(outAbs, strings.ReplaceAll(rel, "/", "__"))
		if err := os.WriteFile(dst, res, 0o666); err != nil {
			return err
		}
		ov.Replace[srcPath] = dst
		sites = append(sites, fsites...)
	}

	if err := writeJSON(filepath.Join(outAbs, "overlay.json"), ov); err != nil {
		return err
	}
	if err := writeJSON(filepath.Join(outAbs, "sites.json"), sites); err != nil {
		return err
	}
	return writeJSON(filepath.Join(outAbs, "errors.json"), errs)
}

// collectDirNames gathers the heuristic name sets from all non-test Go files
// of a package directory. Files that do not parse are skipped.
func collectDirNames(dir string) *Names {
	names := NewNames()
	ents, err := os.ReadDir(dir)
	if err != nil {
		return names
	}
	fset := token.NewFileSet()
	for _, de := range ents {
		n := de.Name()
		if de.IsDir() || !strings.HasSuffix(n, ".go") || strings.HasSuffix(n, "_test.go") {
			continue
		}
		f, err := parser.ParseFile(fset, filepath.Join(dir, n), nil, parser.SkipObjectResolution)
		if err != nil || f == nil {
			continue
		}
		CollectNames(f, names)
	}
	return names
}

func writeJSON(path string, v interface{}) error {
	b, err := json.MarshalIndent(v, "", "  ")
	if err != nil {
		return err
	}
	return os.WriteFile(path, append(b, '\n'), 0o666)
}
