package main

import (
	"bytes"
	"fmt"
	"go/ast"
	"go/parser"
	"go/token"
	"path/filepath"
	"sort"
	"strconv"
	"strings"
)

// Site describes one inserted verifkit.Yield call.
type Site struct {
	Site string `json:"site"`
	File string `json:"file"`
	Line int    `json:"line"`
	Op   string `json:"op"`
}

// Names holds the package-wide (directory-wide) name sets used by the yield
// heuristics. They are collected purely syntactically from declarations.
type Names struct {
	Chan   map[string]bool // names declared with a channel type
	WG     map[string]bool // names declared as sync.WaitGroup
	Cond   map[string]bool // names declared as sync.Cond
	Atomic map[string]bool // names declared with a sync/atomic type
}

func NewNames() *Names {
	return &Names{
		Chan:   map[string]bool{},
		WG:     map[string]bool{},
		Cond:   map[string]bool{},
		Atomic: map[string]bool{},
	}
}

// edit is a textual replacement of src[off:end] by text. Insertions have
// off == end. Edits never contain newlines, so that line numbers of the
// rewritten file are identical to the original ones.
type edit struct {
	off, end int
	text     string
	seq      int
}

const (
	kitImportPath = "verifkit"
	kitName       = "verifkit"
	shimPath      = "verifkit/osshim"
)

// Rewrite applies the given kinds to src. relFile is the path recorded in
// sites (and whose base name forms the site id). The result has exactly the
// same number of lines as src and every original token stays on its original
// line, so no //line directives are necessary.
func Rewrite(src []byte, relFile string, kinds []string, names *Names) ([]byte, []Site, error) {
	if names == nil {
		names = NewNames()
	}
	fset := token.NewFileSet()
	file, err := parser.ParseFile(fset, relFile, src, parser.ParseComments)
	if err != nil {
		return nil, nil, fmt.Errorf("parse: %v", err)
	}
	// Declarations of the file itself always take part in the heuristics.
	CollectNames(file, names)

	rw := &rewriter{
		fset:    fset,
		file:    file,
		src:     src,
		base:    filepath.Base(relFile),
		rel:     relFile,
		names:   names,
		seen:    map[string]int{},
		imports: map[string]string{},
	}
	rw.scanImports()

	for _, k := range kinds {
		switch k {
		case "yield":
			rw.yield()
		case "vclock":
			rw.vclock()
		case "osshim":
			if err := rw.osshim(); err != nil {
				return nil, nil, err
			}
		case "smtperr":
			if err := rw.smtperr(); err != nil {
				return nil, nil, err
			}
		case "vticker":
			rw.vticker()
		default:
			return nil, nil, fmt.Errorf("unknown kind %q", k)
		}
	}
	if rw.needKit && rw.imports[kitImportPath] != kitName {
		// Same line as the package clause: keeps line numbers intact.
		rw.insert(rw.offset(file.Name.End()), "; import "+kitName+" "+strconv.Quote(kitImportPath))
	}

	out, err := rw.apply()
	if err != nil {
		return nil, nil, err
	}
	// Self check: result must parse and have the same line count.
	if _, err := parser.ParseFile(token.NewFileSet(), relFile, out, parser.ParseComments); err != nil {
		return nil, nil, fmt.Errorf("rewritten file does not parse: %v", err)
	}
	if bytes.Count(out, []byte("\n")) != bytes.Count(src, []byte("\n"))+rw.extraLines {
		return nil, nil, fmt.Errorf("internal error: line count changed")
	}
	return out, rw.sites, nil
}

type rewriter struct {
	fset  *token.FileSet
	file  *ast.File
	src   []byte
	base  string
	rel   string
	names *Names

	edits      []edit
	tail       []string // lines appended at the very end of the file
	extraLines int
	sites      []Site
	seen       map[string]int
	needKit    bool

	// import path -> local name ("" when not imported)
	imports map[string]string
	// set of local names that denote imported packages
	pkgNames map[string]bool
}

func (rw *rewriter) offset(p token.Pos) int { return rw.fset.PositionFor(p, false).Offset }
func (rw *rewriter) line(p token.Pos) int   { return rw.fset.PositionFor(p, false).Line }

func (rw *rewriter) insert(off int, text string) {
	rw.edits = append(rw.edits, edit{off: off, end: off, text: text, seq: len(rw.edits)})
}

func (rw *rewriter) replace(from, to token.Pos, text string) {
	rw.edits = append(rw.edits, edit{off: rw.offset(from), end: rw.offset(to), text: text, seq: len(rw.edits)})
}

func (rw *rewriter) apply() ([]byte, error) {
	es := append([]edit(nil), rw.edits...)
	sort.SliceStable(es, func(i, j int) bool {
		if es[i].off != es[j].off {
			return es[i].off < es[j].off
		}
		// insertions before replacements starting at the same offset
		ii, ij := es[i].off == es[i].end, es[j].off == es[j].end
		if ii != ij {
			return ii
		}
		return es[i].seq < es[j].seq
	})
	var out bytes.Buffer
	pos := 0
	for _, e := range es {
		if e.off < pos {
			return nil, fmt.Errorf("internal error: overlapping edits at offset %d", e.off)
		}
		if strings.Contains(e.text, "\n") {
			return nil, fmt.Errorf("internal error: edit contains newline")
		}
		out.Write(rw.src[pos:e.off])
		out.WriteString(e.text)
		pos = e.end
	}
	out.Write(rw.src[pos:])
	if len(rw.tail) > 0 {
		if n := out.Len(); n > 0 && out.Bytes()[n-1] != '\n' {
			out.WriteByte('\n')
			rw.extraLines++
		}
		for _, l := range rw.tail {
			out.WriteString(l)
			out.WriteByte('\n')
			rw.extraLines++
		}
	}
	return out.Bytes(), nil
}

func (rw *rewriter) scanImports() {
	rw.pkgNames = map[string]bool{}
	for _, is := range rw.file.Imports {
		p, err := strconv.Unquote(is.Path.Value)
		if err != nil {
			continue
		}
		name := ""
		if is.Name != nil {
			name = is.Name.Name
		} else {
			name = p[strings.LastIndex(p, "/")+1:]
		}
		rw.imports[p] = name
		if name != "_" && name != "." {
			rw.pkgNames[name] = true
		}
	}
}

// isPkg reports whether e is an identifier that refers to the imported
// package with the given import path (and is not shadowed by a local object).
func (rw *rewriter) isPkg(e ast.Expr, path string) bool {
	id, ok := e.(*ast.Ident)
	if !ok || id.Obj != nil {
		return false
	}
	n := rw.imports[path]
	return n != "" && n != "_" && n != "." && id.Name == n
}

func (rw *rewriter) isAnyPkg(e ast.Expr) bool {
	id, ok := e.(*ast.Ident)
	return ok && id.Obj == nil && rw.pkgNames[id.Name]
}

// ---------------------------------------------------------------- yield ---

func (rw *rewriter) yield() {
	rw.descend(rw.file)
}

// descend walks n and instruments every statement list found in it
// (function bodies, func literals, nested blocks, case/comm clause bodies).
func (rw *rewriter) descend(n ast.Node) {
	if n == nil {
		return
	}
	ast.Inspect(n, func(x ast.Node) bool {
		switch x := x.(type) {
		case *ast.SwitchStmt:
			if x.Init != nil {
				rw.descend(x.Init)
			}
			if x.Tag != nil {
				rw.descend(x.Tag)
			}
			rw.clauses(x.Body)
			return false
		case *ast.TypeSwitchStmt:
			if x.Init != nil {
				rw.descend(x.Init)
			}
			rw.descend(x.Assign)
			rw.clauses(x.Body)
			return false
		case *ast.SelectStmt:
			rw.clauses(x.Body)
			return false
		case *ast.BlockStmt:
			rw.list(x.List)
			return false
		}
		return true
	})
}

// clauses handles the body of a switch / type switch / select statement:
// the clause headers are never insertion points, only the clause bodies.
func (rw *rewriter) clauses(body *ast.BlockStmt) {
	if body == nil {
		return
	}
	for _, c := range body.List {
		switch c := c.(type) {
		case *ast.CaseClause:
			for _, e := range c.List {
				rw.descend(e)
			}
			rw.list(c.Body)
		case *ast.CommClause:
			if c.Comm != nil {
				rw.descend(c.Comm)
			}
			rw.list(c.Body)
		}
	}
}

func (rw *rewriter) list(stmts []ast.Stmt) {
	for _, s := range stmts {
		if op, at := rw.headerOp(s); op != "" {
			rw.addSite(s, at, op)
		}
		rw.descend(s)
	}
}

func (rw *rewriter) addSite(s ast.Stmt, at token.Pos, op string) {
	line := rw.line(at)
	id := rw.base + ":" + strconv.Itoa(line)
	rw.seen[id]++
	if n := rw.seen[id]; n > 1 {
		id += "#" + strconv.Itoa(n)
	}
	rw.sites = append(rw.sites, Site{Site: id, File: rw.rel, Line: line, Op: op})
	rw.insert(rw.offset(s.Pos()), kitName+".Yield("+strconv.Quote(id)+"); ")
	rw.needKit = true
}

// headerOp returns the first synchronisation operation that statement s
// contains *directly*: not inside a nested func literal and not inside a
// nested statement list (those get their own insertion). The returned
// position is that of the innermost unlabeled statement (used for the line
// number of the site id; the insertion itself happens before any labels).
func (rw *rewriter) headerOp(s ast.Stmt) (string, token.Pos) {
	inner := s
	for {
		l, ok := inner.(*ast.LabeledStmt)
		if !ok {
			break
		}
		inner = l.Stmt
	}
	switch st := inner.(type) {
	case *ast.DeferStmt:
		return "", token.NoPos // never instrument defer statements
	case *ast.GoStmt:
		return "go", inner.Pos()
	case *ast.SelectStmt:
		return "select", inner.Pos()
	case *ast.ExprStmt:
		// statement-level call: wg.Add(1), wg.Done() ...
		if call, ok := unparen(st.X).(*ast.CallExpr); ok {
			if op := rw.classifyCall(call, true); op != "" {
				return op, inner.Pos()
			}
		}
	}
	op := ""
	var scan func(n ast.Node)
	scan = func(n ast.Node) {
		ast.Inspect(n, func(x ast.Node) bool {
			if op != "" {
				return false
			}
			switch x := x.(type) {
			case *ast.FuncLit, *ast.BlockStmt:
				return false
			case *ast.SwitchStmt:
				// header = init, tag and the case expressions
				if x.Init != nil {
					scan(x.Init)
				}
				if x.Tag != nil {
					scan(x.Tag)
				}
				for _, c := range x.Body.List {
					if cc, ok := c.(*ast.CaseClause); ok {
						for _, e := range cc.List {
							scan(e)
						}
					}
				}
				return false
			case *ast.SendStmt:
				op = "send"
			case *ast.UnaryExpr:
				if x.Op == token.ARROW {
					op = "recv"
				}
			case *ast.RangeStmt:
				if rw.chanLike(x.X) {
					op = "recv"
				}
			case *ast.CallExpr:
				op = rw.classifyCall(x, false)
			}
			return op == ""
		})
	}
	// For statements with bodies only the header parts are scanned; the
	// generic walker prunes BlockStmt/CommClause/FuncLit. The top-level node
	// itself may be a BlockStmt (plain nested block): nothing direct then.
	if _, ok := inner.(*ast.BlockStmt); ok {
		return "", token.NoPos
	}
	scan(inner)
	return op, inner.Pos()
}

func unparen(e ast.Expr) ast.Expr {
	for {
		p, ok := e.(*ast.ParenExpr)
		if !ok {
			return e
		}
		e = p.X
	}
}

// lastName returns the final identifier of a (possibly qualified) operand:
// x -> x, a.b.c -> c, (*p).f -> f, a[i] -> name of a.
func lastName(e ast.Expr) string {
	switch x := unparen(e).(type) {
	case *ast.Ident:
		return x.Name
	case *ast.SelectorExpr:
		return x.Sel.Name
	case *ast.StarExpr:
		return lastName(x.X)
	case *ast.UnaryExpr:
		if x.Op == token.AND {
			return lastName(x.X)
		}
	case *ast.IndexExpr:
		return lastName(x.X)
	}
	return ""
}

func (rw *rewriter) chanLike(e ast.Expr) bool {
	n := lastName(e)
	return n != "" && rw.names.Chan[n]
}

// classifyCall decides whether call is one of the synchronisation calls we
// yield before. stmtLevel is true when the call is a whole expression
// statement (needed for the ambiguous names Add and Done).
func (rw *rewriter) classifyCall(call *ast.CallExpr, stmtLevel bool) string {
	switch fun := unparen(call.Fun).(type) {
	case *ast.Ident:
		if fun.Name == "close" && fun.Obj == nil && len(call.Args) == 1 {
			return "close"
		}
	case *ast.SelectorExpr:
		if rw.isPkg(fun.X, "sync/atomic") {
			return "atomic"
		}
		if rw.isAnyPkg(fun.X) {
			return "" // pkg.Func(...): not a method call
		}
		recv := unparen(fun.X)
		_, recvIsCall := recv.(*ast.CallExpr)
		rn := lastName(recv)
		nargs := len(call.Args)
		switch fun.Sel.Name {
		case "Lock":
			if nargs == 0 {
				return "lock"
			}
		case "Unlock":
			if nargs == 0 {
				return "unlock"
			}
		case "RLock":
			if nargs == 0 {
				return "rlock"
			}
		case "RUnlock":
			if nargs == 0 {
				return "runlock"
			}
		case "Wait":
			if nargs == 0 && !recvIsCall {
				if rw.names.Cond[rn] {
					return "cond"
				}
				return "wg"
			}
		case "Done":
			// ctx.Done() yields a channel and is never a bare statement.
			if nargs == 0 && stmtLevel && !recvIsCall {
				return "wg"
			}
		case "Add":
			if nargs == 1 && !recvIsCall {
				if rw.names.Atomic[rn] {
					return "atomic"
				}
				if stmtLevel || rw.names.WG[rn] {
					return "wg"
				}
			}
		case "Signal", "Broadcast":
			if nargs == 0 && !recvIsCall {
				return "cond"
			}
		case "Load":
			if nargs == 0 && !recvIsCall {
				return "atomic"
			}
		case "Store", "Swap":
			if nargs == 1 && !recvIsCall {
				return "atomic"
			}
		case "CompareAndSwap":
			if nargs == 2 && !recvIsCall {
				return "atomic"
			}
		}
	}
	return ""
}

// CollectNames records, for every declaration in f, names that are declared
// with channel / WaitGroup / Cond / atomic types.
func CollectNames(f *ast.File, names *Names) {
	classify := func(t ast.Expr) map[string]bool {
		for {
			switch x := t.(type) {
			case *ast.ParenExpr:
				t = x.X
				continue
			case *ast.StarExpr:
				t = x.X
				continue
			}
			break
		}
		switch x := t.(type) {
		case *ast.ChanType:
			return names.Chan
		case *ast.SelectorExpr:
			if id, ok := x.X.(*ast.Ident); ok {
				switch {
				case id.Name == "sync" && x.Sel.Name == "WaitGroup":
					return names.WG
				case id.Name == "sync" && x.Sel.Name == "Cond":
					return names.Cond
				case id.Name == "atomic":
					return names.Atomic
				}
			}
		}
		return nil
	}
	// classifyValue looks at an initialiser expression.
	classifyValue := func(v ast.Expr) map[string]bool {
		v = unparen(v)
		if u, ok := v.(*ast.UnaryExpr); ok && u.Op == token.AND {
			v = unparen(u.X)
		}
		switch x := v.(type) {
		case *ast.CompositeLit:
			if x.Type != nil {
				return classify(x.Type)
			}
		case *ast.CallExpr:
			if id, ok := x.Fun.(*ast.Ident); ok && (id.Name == "make" || id.Name == "new") && len(x.Args) >= 1 {
				return classify(x.Args[0])
			}
			if sel, ok := x.Fun.(*ast.SelectorExpr); ok {
				if id, ok := sel.X.(*ast.Ident); ok && id.Name == "sync" && sel.Sel.Name == "NewCond" {
					return names.Cond
				}
			}
		}
		return nil
	}
	ast.Inspect(f, func(n ast.Node) bool {
		switch x := n.(type) {
		case *ast.Field:
			if set := classify(x.Type); set != nil {
				for _, id := range x.Names {
					set[id.Name] = true
				}
			}
		case *ast.ValueSpec:
			if x.Type != nil {
				if set := classify(x.Type); set != nil {
					for _, id := range x.Names {
						set[id.Name] = true
					}
				}
			}
			if len(x.Values) == len(x.Names) {
				for i, v := range x.Values {
					if set := classifyValue(v); set != nil {
						set[x.Names[i].Name] = true
					}
				}
			}
		case *ast.AssignStmt:
			if len(x.Lhs) == len(x.Rhs) {
				for i, v := range x.Rhs {
					if set := classifyValue(v); set != nil {
						if n := lastName(x.Lhs[i]); n != "" && n != "_" {
							set[n] = true
						}
					}
				}
			}
		case *ast.KeyValueExpr:
			if id, ok := x.Key.(*ast.Ident); ok {
				if set := classifyValue(x.Value); set != nil {
					set[id.Name] = true
				}
			}
		}
		return true
	})
}

// --------------------------------------------------------------- vclock ---

func (rw *rewriter) vclock() {
	tn := rw.imports["time"]
	if tn == "" || tn == "_" || tn == "." {
		return
	}
	// Calls first (so we know which selector expressions are call targets).
	handled := map[*ast.SelectorExpr]bool{}
	ast.Inspect(rw.file, func(n ast.Node) bool {
		call, ok := n.(*ast.CallExpr)
		if !ok {
			return true
		}
		sel, ok := call.Fun.(*ast.SelectorExpr)
		if !ok || !rw.isPkg(sel.X, "time") {
			return true
		}
		switch {
		case sel.Sel.Name == "Now" && len(call.Args) == 0:
			rw.replace(sel.Pos(), sel.End(), kitName+".Now")
		case sel.Sel.Name == "Since" && len(call.Args) == 1:
			rw.replace(sel.Pos(), sel.End(), kitName+".Now().Sub")
		case sel.Sel.Name == "Until" && len(call.Args) == 1:
			// time.Until(x) -> (x).Sub(verifkit.Now())
			rw.replace(sel.Pos(), sel.End(), "")
			rw.insert(rw.offset(call.End()), ".Sub("+kitName+".Now())")
		default:
			return true
		}
		handled[sel] = true
		rw.needKit = true
		return true
	})
	// time.Now used as a function value.
	ast.Inspect(rw.file, func(n ast.Node) bool {
		sel, ok := n.(*ast.SelectorExpr)
		if !ok || handled[sel] || !rw.isPkg(sel.X, "time") || sel.Sel.Name != "Now" {
			return true
		}
		rw.replace(sel.Pos(), sel.End(), kitName+".Now")
		rw.needKit = true
		return true
	})
	// Keep the time import used whatever happened above.
	rw.tail = append(rw.tail, "var _ = "+tn+".Now")
}

// -------------------------------------------------------------- vticker ---

// vticker replaces the channel tickers and timers of package time by the
// virtual ones of verifkit (kit/vticker.go): time.NewTicker, time.Tick,
// time.NewTimer, time.After (called or used as function values) and the type
// names time.Ticker / time.Timer become verifkit.NewTicker ... verifkit.Timer.
// Only the package qualifier is replaced, so the line layout is untouched.
// time.AfterFunc, time.Sleep and context deadlines are left alone. The kind
// is independent of vclock (which rewrites Now/Since/Until only); a file may
// carry both.
func (rw *rewriter) vticker() {
	tn := rw.imports["time"]
	if tn == "" || tn == "_" || tn == "." {
		return
	}
	names := map[string]bool{"NewTicker": true, "Tick": true, "NewTimer": true, "After": true, "Ticker": true, "Timer": true}
	ast.Inspect(rw.file, func(n ast.Node) bool {
		sel, ok := n.(*ast.SelectorExpr)
		if !ok || !rw.isPkg(sel.X, "time") || !names[sel.Sel.Name] {
			return true
		}
		rw.replace(sel.X.Pos(), sel.X.End(), kitName)
		rw.needKit = true
		return true
	})
	// Keep the time import used whatever happened above.
	rw.tail = append(rw.tail, "var _ = "+tn+".Now")
}

// --------------------------------------------------------------- osshim ---

func (rw *rewriter) osshim() error {
	for _, is := range rw.file.Imports {
		p, err := strconv.Unquote(is.Path.Value)
		if err != nil || p != "os" {
			continue
		}
		if is.Name == nil {
			rw.replace(is.Path.Pos(), is.Path.End(), "os "+strconv.Quote(shimPath))
		} else {
			rw.replace(is.Path.Pos(), is.Path.End(), strconv.Quote(shimPath))
		}
		return nil
	}
	return fmt.Errorf("osshim: import \"os\" not found")
}

// -------------------------------------------------------------- smtperr ---

func (rw *rewriter) smtperr() error {
	want := []string{"Code", "EnhancedCode", "Message", "CheckName", "TargetName", "Reason", "Misc"}
	// If the struct is declared in this file, make sure the fields exist.
	for _, d := range rw.file.Decls {
		gd, ok := d.(*ast.GenDecl)
		if !ok {
			continue
		}
		for _, sp := range gd.Specs {
			ts, ok := sp.(*ast.TypeSpec)
			if !ok || ts.Name.Name != "SMTPError" {
				continue
			}
			st, ok := ts.Type.(*ast.StructType)
			if !ok {
				return fmt.Errorf("smtperr: SMTPError is not a struct")
			}
			have := map[string]bool{}
			for _, f := range st.Fields.List {
				for _, n := range f.Names {
					have[n.Name] = true
				}
			}
			for _, w := range want {
				if !have[w] {
					return fmt.Errorf("smtperr: SMTPError has no field %s", w)
				}
			}
		}
	}
	for _, d := range rw.file.Decls {
		fd, ok := d.(*ast.FuncDecl)
		if !ok || fd.Name.Name != "Fields" || fd.Recv == nil || len(fd.Recv.List) != 1 || fd.Body == nil {
			continue
		}
		rf := fd.Recv.List[0]
		star, ok := rf.Type.(*ast.StarExpr)
		if !ok {
			continue
		}
		if id, ok := star.X.(*ast.Ident); !ok || id.Name != "SMTPError" {
			continue
		}
		if len(rf.Names) != 1 || rf.Names[0].Name == "_" {
			return fmt.Errorf("smtperr: (*SMTPError).Fields has no named receiver")
		}
		r := rf.Names[0].Name
		stmt := fmt.Sprintf(" %s.ObserveSMTPError(%s.Code, [3]int(%s.EnhancedCode), %s.Message, %s.CheckName, %s.TargetName, %s.Reason, %s.Misc != nil);",
			kitName, r, r, r, r, r, r, r)
		rw.insert(rw.offset(fd.Body.Lbrace)+1, stmt)
		rw.needKit = true
		return nil
	}
	return fmt.Errorf("smtperr: method (*SMTPError).Fields not found")
}
