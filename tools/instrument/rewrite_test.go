package main

import (
	"encoding/json"
	"go/parser"
	"go/token"
	"os"
	"path/filepath"
	"strings"
	"testing"
)

// rewrite runs Rewrite and checks the invariants every result must satisfy:
// parses, same number of lines, every original line is a suffix-preserving
// edit (original tokens stay on their line).
func rewrite(t *testing.T, src string, kinds ...string) (string, []Site) {
	t.Helper()
	out, sites, err := Rewrite([]byte(src), "pkg/dir/file.go", kinds, nil)
	if err != nil {
		t.Fatalf("Rewrite: %v", err)
	}
	if _, err := parser.ParseFile(token.NewFileSet(), "file.go", out, 0); err != nil {
		t.Fatalf("result does not parse: %v\n%s", err, out)
	}
	return string(out), sites
}

func lines(s string) []string { return strings.Split(s, "\n") }

// expectLines checks selected (1-based) lines of got.
func expectLines(t *testing.T, got string, want map[int]string) {
	t.Helper()
	ls := lines(got)
	for n, w := range want {
		if n-1 >= len(ls) {
			t.Errorf("line %d missing", n)
			continue
		}
		if strings.TrimSpace(ls[n-1]) != w {
			t.Errorf("line %d:\n got: %s\nwant: %s", n, strings.TrimSpace(ls[n-1]), w)
		}
	}
	if t.Failed() {
		t.Logf("full output:\n%s", got)
	}
}

// onlyChanged asserts that exactly the given lines differ from the input.
func onlyChanged(t *testing.T, src, got string, changed ...int) {
	t.Helper()
	a, b := lines(src), lines(got)
	if len(a) != len(b) {
		t.Fatalf("line count changed: %d -> %d", len(a), len(b))
	}
	want := map[int]bool{}
	for _, n := range changed {
		want[n] = true
	}
	for i := range a {
		if (a[i] != b[i]) != want[i+1] {
			t.Errorf("line %d: changed=%v, expected changed=%v\n  in:  %s\n  out: %s", i+1, a[i] != b[i], want[i+1], a[i], b[i])
		}
	}
}

func siteSummary(sites []Site) string {
	var parts []string
	for _, s := range sites {
		parts = append(parts, s.Site+"="+s.Op)
	}
	return strings.Join(parts, " ")
}

const yieldBasic = `// Copyright header.

//go:build linux || !linux

package p

import (
	"sync"
	"sync/atomic"
)

type T struct {
	mu   sync.Mutex
	rw   sync.RWMutex
	ch   chan int
	stop chan struct{}
	n    uint32
	wg   sync.WaitGroup
}

func (t *T) basic(v int) {
	t.mu.Lock()
	defer t.mu.Unlock()
	t.ch <- v
	x := <-t.ch
	_ = x
	close(t.stop)
	go t.basic(1)
	atomic.AddUint32(&t.n, 1)
	t.rw.RLock()
	t.rw.RUnlock()
	t.wg.Add(1)
	t.wg.Done()
	t.wg.Wait()
	v++
}
`

func TestYieldBasic(t *testing.T) {
	got, sites := rewrite(t, yieldBasic, "yield")
	expectLines(t, got, map[int]string{
		3:  `//go:build linux || !linux`,
		5:  `package p; import verifkit "verifkit"`,
		22: `verifkit.Yield("file.go:22"); t.mu.Lock()`,
		23: `defer t.mu.Unlock()`,
		24: `verifkit.Yield("file.go:24"); t.ch <- v`,
		25: `verifkit.Yield("file.go:25"); x := <-t.ch`,
		27: `verifkit.Yield("file.go:27"); close(t.stop)`,
		28: `verifkit.Yield("file.go:28"); go t.basic(1)`,
		29: `verifkit.Yield("file.go:29"); atomic.AddUint32(&t.n, 1)`,
		30: `verifkit.Yield("file.go:30"); t.rw.RLock()`,
		31: `verifkit.Yield("file.go:31"); t.rw.RUnlock()`,
		32: `verifkit.Yield("file.go:32"); t.wg.Add(1)`,
		33: `verifkit.Yield("file.go:33"); t.wg.Done()`,
		34: `verifkit.Yield("file.go:34"); t.wg.Wait()`,
		35: `v++`,
	})
	onlyChanged(t, yieldBasic, got, 5, 22, 24, 25, 27, 28, 29, 30, 31, 32, 33, 34)
	want := "file.go:22=lock file.go:24=send file.go:25=recv file.go:27=close file.go:28=go file.go:29=atomic " +
		"file.go:30=rlock file.go:31=runlock file.go:32=wg file.go:33=wg file.go:34=wg"
	if s := siteSummary(sites); s != want {
		t.Errorf("sites:\n got: %s\nwant: %s", s, want)
	}
	for _, s := range sites {
		if s.File != "pkg/dir/file.go" {
			t.Errorf("site file = %q", s.File)
		}
	}
	if strings.HasPrefix(got, "//go:build verif") {
		t.Error("must not start with a verif build constraint")
	}
}

const yieldControl = `package p

import "sync"

type T struct {
	mu   sync.Mutex
	ch   chan int
	stop chan struct{}
	list []int
}

func (t *T) loop() {
	for {
		select {
		case v := <-t.ch:
			t.mu.Lock()
			t.list = append(t.list, v)
			t.mu.Unlock()
		case <-t.stop:
			return
		}
	}
}

func (t *T) labeled() {
outer:
	for v := range t.ch {
		if v == 0 {
			break outer
		}
	}
inner:
	for {
		select {
		case <-t.stop:
			break inner
		default:
		}
	}
	for _, v := range t.list {
		_ = v
	}
}

func (t *T) headers() int {
	if v, ok := <-t.ch; ok {
		return v
	} else if w := <-t.ch; w > 0 {
		t.mu.Lock()
		return w
	} else {
		t.ch <- 1
	}
	for v := <-t.ch; v > 0; v-- {
		t.ch <- v
	}
	switch <-t.ch {
	case 1:
		close(t.ch)
	}
	switch x := interface{}(t).(type) {
	case nil:
		<-t.stop
		_ = x
	}
	{
		t.mu.Unlock()
	}
	return <-t.ch
}
`

func TestYieldControlFlow(t *testing.T) {
	got, sites := rewrite(t, yieldControl, "yield")
	expectLines(t, got, map[int]string{
		// for { select }: inside the loop body, before the select; clause
		// headers untouched; clause bodies instrumented
		13: `for {`,
		14: `verifkit.Yield("file.go:14"); select {`,
		15: `case v := <-t.ch:`,
		16: `verifkit.Yield("file.go:16"); t.mu.Lock()`,
		18: `verifkit.Yield("file.go:18"); t.mu.Unlock()`,
		19: `case <-t.stop:`,
		// labeled range over channel: Yield before the label, line of the for
		26: `verifkit.Yield("file.go:27"); outer:`,
		27: `for v := range t.ch {`,
		// labeled for without direct op: nothing before the label
		32: `inner:`,
		33: `for {`,
		34: `verifkit.Yield("file.go:34"); select {`,
		// range over a slice: no site
		40: `for _, v := range t.list {`,
		// if / else-if headers with receive: one Yield before the whole chain
		46: `verifkit.Yield("file.go:46"); if v, ok := <-t.ch; ok {`,
		48: `} else if w := <-t.ch; w > 0 {`,
		49: `verifkit.Yield("file.go:49"); t.mu.Lock()`,
		52: `verifkit.Yield("file.go:52"); t.ch <- 1`,
		54: `verifkit.Yield("file.go:54"); for v := <-t.ch; v > 0; v-- {`,
		55: `verifkit.Yield("file.go:55"); t.ch <- v`,
		57: `verifkit.Yield("file.go:57"); switch <-t.ch {`,
		58: `case 1:`,
		59: `verifkit.Yield("file.go:59"); close(t.ch)`,
		61: `switch x := interface{}(t).(type) {`,
		63: `verifkit.Yield("file.go:63"); <-t.stop`,
		66: `{`,
		67: `verifkit.Yield("file.go:67"); t.mu.Unlock()`,
		69: `verifkit.Yield("file.go:69"); return <-t.ch`,
	})
	onlyChanged(t, yieldControl, got, 1, 14, 16, 18, 26, 34, 46, 49, 52, 54, 55, 57, 59, 63, 67, 69)
	ops := map[string]string{}
	for _, s := range sites {
		ops[s.Site] = s.Op
	}
	for site, op := range map[string]string{"file.go:14": "select", "file.go:27": "recv", "file.go:46": "recv", "file.go:54": "recv", "file.go:57": "recv", "file.go:69": "recv"} {
		if ops[site] != op {
			t.Errorf("site %s op = %q, want %q", site, ops[site], op)
		}
	}
}

const yieldFuncLit = `package p

import (
	"context"
	"sync"
	"time"
)

var mu sync.Mutex

var hook = func() { mu.Lock(); mu.Unlock() }

func f(ctx context.Context, ch chan int, t0 time.Time) time.Time {
	cb := func() {
		ch <- 1
	}
	cb()
	defer func() {
		mu.Lock()
		defer mu.Unlock()
	}()
	go func() {
		<-ctx.Done()
	}()
	run(func() { close(ch) }, 1)
	if ctx.Err() != nil {
		return t0.Add(time.Second)
	}
	d := ctx.Done()
	_ = d
	t1 := t0.Add(1)
	time.Sleep(1)
	return t1
}

func run(func(), int) {}
`

func TestYieldFuncLitsAndSkips(t *testing.T) {
	got, sites := rewrite(t, yieldFuncLit, "yield")
	expectLines(t, got, map[int]string{
		// package-level func literal, two sites on one line
		11: `var hook = func() { verifkit.Yield("file.go:11"); mu.Lock(); verifkit.Yield("file.go:11#2"); mu.Unlock() }`,
		// the assignment of a func literal is not a site, its body is
		14: `cb := func() {`,
		15: `verifkit.Yield("file.go:15"); ch <- 1`,
		// defer: nothing before the defer, but the literal's body is normal code
		18: `defer func() {`,
		19: `verifkit.Yield("file.go:19"); mu.Lock()`,
		20: `defer mu.Unlock()`,
		// go statement is a site; so is the receive in its body
		22: `verifkit.Yield("file.go:22"); go func() {`,
		23: `verifkit.Yield("file.go:23"); <-ctx.Done()`,
		// func literal as call argument: only inside
		25: `run(func() { verifkit.Yield("file.go:25"); close(ch) }, 1)`,
		// not sync: time.Time.Add in expressions, ctx.Done() as value, pkg funcs
		27: `return t0.Add(time.Second)`,
		29: `d := ctx.Done()`,
		31: `t1 := t0.Add(1)`,
		32: `time.Sleep(1)`,
	})
	onlyChanged(t, yieldFuncLit, got, 1, 11, 15, 19, 22, 23, 25)
	if len(sites) != 7 {
		t.Errorf("%d sites: %s", len(sites), siteSummary(sites))
	}
}

func TestYieldNoSitesNoImport(t *testing.T) {
	src := "package p\n\nfunc f() int { return 1 }\n"
	got, sites := rewrite(t, src, "yield")
	if got != src || len(sites) != 0 {
		t.Fatalf("unexpected change:\n%s", got)
	}
}

func TestYieldAtomicMethodsAndShadowing(t *testing.T) {
	src := `package p

import "sync/atomic"

type S struct {
	cnt   atomic.Int64
	flag  atomic.Bool
	other int
}

func (s *S) f(m map[string]int, close func(int)) int64 {
	s.flag.Store(true)
	if s.flag.Load() {
		s.cnt.Add(2)
	}
	n := s.cnt.Add(1)
	s.flag.CompareAndSwap(true, false)
	close(1)
	return n
}
`
	got, sites := rewrite(t, src, "yield")
	want := "file.go:12=atomic file.go:13=atomic file.go:14=atomic file.go:16=atomic file.go:17=atomic"
	if s := siteSummary(sites); s != want {
		t.Errorf("sites:\n got: %s\nwant: %s\n%s", s, want, got)
	}
	// close is shadowed by a parameter: not the builtin
	expectLines(t, got, map[int]string{18: `close(1)`})
}

const vclockSrc = `package p

import (
	"fmt"
	"time"
)

type cfg struct{ now func() time.Time }

func f(start time.Time, deadline time.Time) {
	a := time.Now()
	b := time.Since(start)
	c := time.Until(deadline)
	d := time.Now().Unix() - start.Unix()
	e := cfg{now: time.Now}
	tm := time.NewTimer(time.Second)
	<-time.After(time.Until(time.Now().Add(b)))
	fmt.Println(a, b, c, d, e, tm)
}
`

func TestVClock(t *testing.T) {
	got, sites := rewrite(t, vclockSrc, "vclock")
	if len(sites) != 0 {
		t.Errorf("vclock produced sites")
	}
	expectLines(t, got, map[int]string{
		1:  `package p; import verifkit "verifkit"`,
		11: `a := verifkit.Now()`,
		12: `b := verifkit.Now().Sub(start)`,
		13: `c := (deadline).Sub(verifkit.Now())`,
		14: `d := verifkit.Now().Unix() - start.Unix()`,
		15: `e := cfg{now: verifkit.Now}`,
		16: `tm := time.NewTimer(time.Second)`,
		17: `<-time.After((verifkit.Now().Add(b)).Sub(verifkit.Now()))`,
		20: `var _ = time.Now`,
	})
	if n := len(lines(got)); n != len(lines(vclockSrc))+1 {
		t.Errorf("line count %d", n)
	}
}

func TestVClockAliasAndShadow(t *testing.T) {
	src := `package p

import tm "time"

type fake struct{}

func (fake) Now() int { return 0 }

func f() {
	_ = tm.Now()
	time := fake{}
	_ = time.Now()
}
`
	got, _ := rewrite(t, src, "vclock")
	expectLines(t, got, map[int]string{
		10: `_ = verifkit.Now()`,
		12: `_ = time.Now()`,
		14: `var _ = tm.Now`,
	})
}

func TestOSShim(t *testing.T) {
	src := `package p

import (
	"io"
	"os"
)

func f() (io.Closer, error) { return os.Open("x") }
`
	got, _ := rewrite(t, src, "osshim")
	expectLines(t, got, map[int]string{
		1: `package p`,
		5: `os "verifkit/osshim"`,
		8: `func f() (io.Closer, error) { return os.Open("x") }`,
	})
	onlyChanged(t, src, got, 5)

	aliased := "package p\n\nimport stdos \"os\"\n\nvar _ = stdos.Getpid\n"
	got, _ = rewrite(t, aliased, "osshim")
	expectLines(t, got, map[int]string{3: `import stdos "verifkit/osshim"`})

	if _, _, err := Rewrite([]byte("package p\n\nimport \"io\"\n\nvar _ io.Reader\n"), "x.go", []string{"osshim"}, nil); err == nil || !strings.Contains(err.Error(), "not found") {
		t.Errorf("missing os import: err = %v", err)
	}
}

const smtpErrSrc = `package exterrors

type EnhancedCode [3]int

type SMTPError struct {
	Code         int
	EnhancedCode EnhancedCode
	Message      string
	CheckName    string
	TargetName   string
	Err          error
	Reason       string
	Misc         map[string]interface{}
}

func (se *SMTPError) Unwrap() error { return se.Err }

func (se SMTPOther) Fields() map[string]interface{} { return nil }

func (e *SMTPError) Fields() map[string]interface{} {
	ctx := make(map[string]interface{}, len(e.Misc)+3)
	return ctx
}

type SMTPOther struct{}
`

func TestSMTPErr(t *testing.T) {
	got, _ := rewrite(t, smtpErrSrc, "smtperr")
	expectLines(t, got, map[int]string{
		1:  `package exterrors; import verifkit "verifkit"`,
		18: `func (se SMTPOther) Fields() map[string]interface{} { return nil }`,
		20: `func (e *SMTPError) Fields() map[string]interface{} { verifkit.ObserveSMTPError(e.Code, [3]int(e.EnhancedCode), e.Message, e.CheckName, e.TargetName, e.Reason, e.Misc != nil);`,
		21: `ctx := make(map[string]interface{}, len(e.Misc)+3)`,
	})
	onlyChanged(t, smtpErrSrc, got, 1, 20)

	noMethod := strings.Replace(smtpErrSrc, "func (e *SMTPError) Fields()", "func (e *SMTPError) Fieldz()", 1)
	if _, _, err := Rewrite([]byte(noMethod), "smtp.go", []string{"smtperr"}, nil); err == nil || !strings.Contains(err.Error(), "not found") {
		t.Errorf("missing method: err = %v", err)
	}
	noField := strings.Replace(smtpErrSrc, "	CheckName    string\n", "", 1)
	if _, _, err := Rewrite([]byte(noField), "smtp.go", []string{"smtperr"}, nil); err == nil || !strings.Contains(err.Error(), "CheckName") {
		t.Errorf("missing field: err = %v", err)
	}
}

func TestCombinedKinds(t *testing.T) {
	src := `package p

import (
	"os"
	"sync"
	"time"
)

var mu sync.Mutex

func f() (time.Time, error) {
	mu.Lock()
	_, err := os.Stat("x")
	now := time.Now()
	mu.Unlock()
	return now, err
}
`
	got, sites := rewrite(t, src, "yield", "vclock", "osshim")
	expectLines(t, got, map[int]string{
		1:  `package p; import verifkit "verifkit"`,
		4:  `os "verifkit/osshim"`,
		12: `verifkit.Yield("file.go:12"); mu.Lock()`,
		14: `now := verifkit.Now()`,
		15: `verifkit.Yield("file.go:15"); mu.Unlock()`,
		18: `var _ = time.Now`,
	})
	if len(sites) != 2 {
		t.Errorf("sites: %s", siteSummary(sites))
	}
	if strings.Count(got, `import verifkit "verifkit"`) != 1 {
		t.Error("import added more than once")
	}
}

func TestParseErrorAndUnknownKind(t *testing.T) {
	if _, _, err := Rewrite([]byte("package p\nfunc {"), "x.go", []string{"yield"}, nil); err == nil {
		t.Error("no error for broken file")
	}
	if _, _, err := Rewrite([]byte("package p\n"), "x.go", []string{"nope"}, nil); err == nil {
		t.Error("no error for unknown kind")
	}
}

// Names declared in sibling files of the package take part in the heuristics.
func TestDirNames(t *testing.T) {
	dir := t.TempDir()
	write := func(name, content string) {
		if err := os.WriteFile(filepath.Join(dir, name), []byte(content), 0o666); err != nil {
			t.Fatal(err)
		}
	}
	write("types.go", "package p\n\ntype slot struct{ c chan int }\n")
	write("broken.go", "package p\nfunc {\n")
	write("types_test.go", "package p\n\ntype tt struct{ items chan int }\n")
	names := collectDirNames(dir)
	if !names.Chan["c"] || names.Chan["items"] {
		t.Fatalf("names = %+v", names.Chan)
	}
	src := "package p\n\nfunc f(s slot, items []int) {\n\tfor v := range s.c {\n\t\t_ = v\n\t}\n\tfor range items {\n\t}\n}\n"
	out, sites, err := Rewrite([]byte(src), "use.go", []string{"yield"}, names)
	if err != nil {
		t.Fatal(err)
	}
	if siteSummary(sites) != "use.go:4=recv" {
		t.Fatalf("sites = %s\n%s", siteSummary(sites), out)
	}
}

// End-to-end run of the CLI on a miniature repository.
func TestCLI(t *testing.T) {
	repo := t.TempDir()
	out := filepath.Join(t.TempDir(), "out")
	must := func(err error) {
		t.Helper()
		if err != nil {
			t.Fatal(err)
		}
	}
	must(os.MkdirAll(filepath.Join(repo, "a", "b"), 0o777))
	must(os.WriteFile(filepath.Join(repo, "a", "b", "ok.go"), []byte(yieldBasic), 0o666))
	must(os.WriteFile(filepath.Join(repo, "a", "broken.go"), []byte("package a\nfunc {"), 0o666))
	must(os.WriteFile(filepath.Join(repo, "a", "nofields.go"), []byte("package a\n"), 0o666))
	spec := `[{"file":"a/b/ok.go","kinds":["yield"]},
	{"file":"a/broken.go","kinds":["yield"]},
	{"file":"a/nofields.go","kinds":["smtperr"]},
	{"file":"a/missing.go","kinds":["yield"]}]`
	specPath := filepath.Join(repo, "spec.json")
	must(os.WriteFile(specPath, []byte(spec), 0o666))

	if code := run([]string{"-repo", repo, "-out", out, "-spec", specPath}); code != 0 {
		t.Fatalf("exit code %d", code)
	}
	var ov overlay
	readJSON(t, filepath.Join(out, "overlay.json"), &ov)
	wantDst := filepath.Join(out, "a__b__ok.go")
	if len(ov.Replace) != 1 || ov.Replace[filepath.Join(repo, "a", "b", "ok.go")] != wantDst {
		t.Fatalf("overlay = %+v", ov)
	}
	b, err := os.ReadFile(wantDst)
	must(err)
	if !strings.Contains(string(b), `verifkit.Yield("ok.go:22"); t.mu.Lock()`) {
		t.Fatalf("rewritten file:\n%s", b)
	}
	var sites []Site
	readJSON(t, filepath.Join(out, "sites.json"), &sites)
	if len(sites) != 11 || sites[0] != (Site{Site: "ok.go:22", File: "a/b/ok.go", Line: 22, Op: "lock"}) {
		t.Fatalf("sites = %+v", sites)
	}
	var errs []fileError
	readJSON(t, filepath.Join(out, "errors.json"), &errs)
	if len(errs) != 3 || errs[0].File != "a/broken.go" || errs[1].File != "a/nofields.go" || errs[2].File != "a/missing.go" {
		t.Fatalf("errors = %+v", errs)
	}
	if !strings.Contains(errs[1].Error, "Fields not found") {
		t.Fatalf("errors[1] = %+v", errs[1])
	}

	// usage / IO errors are non-zero
	if code := run([]string{"-repo", repo}); code == 0 {
		t.Error("missing flags accepted")
	}
	if code := run([]string{"-repo", repo, "-out", out, "-spec", filepath.Join(repo, "nope.json")}); code == 0 {
		t.Error("missing spec accepted")
	}
	if code := run([]string{"-repo", filepath.Join(repo, "nope"), "-out", out, "-spec", specPath}); code == 0 {
		t.Error("missing repo accepted")
	}
}

func readJSON(t *testing.T, path string, v interface{}) {
	t.Helper()
	b, err := os.ReadFile(path)
	if err != nil {
		t.Fatal(err)
	}
	if err := json.Unmarshal(b, v); err != nil {
		t.Fatalf("%s: %v", path, err)
	}
}

const vtickerSrc = `package p

import (
	"fmt"
	"time"
)

type holder struct {
	t  *time.Ticker
	tm *time.Timer
}

func g(h *holder) {
	h.t = time.NewTicker(time.Minute)
	defer h.t.Stop()
	h.tm = time.NewTimer(time.Second)
	mk := time.After
	select {
	case <-h.t.C:
	case <-time.After(2 * time.Second):
	case <-time.Tick(time.Hour):
	case <-mk(time.Second):
	}
	time.AfterFunc(time.Second, func() {})
	fmt.Println(time.Now(), time.Duration(3))
}
`

func TestVTicker(t *testing.T) {
	got, sites := rewrite(t, vtickerSrc, "vticker")
	if len(sites) != 0 {
		t.Errorf("vticker produced sites")
	}
	expectLines(t, got, map[int]string{
		1:  `package p; import verifkit "verifkit"`,
		9:  `t  *verifkit.Ticker`,
		10: `tm *verifkit.Timer`,
		14: `h.t = verifkit.NewTicker(time.Minute)`,
		16: `h.tm = verifkit.NewTimer(time.Second)`,
		17: `mk := verifkit.After`,
		20: `case <-verifkit.After(2 * time.Second):`,
		21: `case <-verifkit.Tick(time.Hour):`,
		24: `time.AfterFunc(time.Second, func() {})`,
		25: `fmt.Println(time.Now(), time.Duration(3))`,
		27: `var _ = time.Now`,
	})
	// together with vclock: both kinds apply, neither disturbs the other
	got, _ = rewrite(t, vtickerSrc, "yield", "vclock", "vticker")
	expectLines(t, got, map[int]string{
		14: `h.t = verifkit.NewTicker(time.Minute)`,
		25: `fmt.Println(verifkit.Now(), time.Duration(3))`,
	})
	// vclock alone keeps its documented behaviour
	got, _ = rewrite(t, vtickerSrc, "vclock")
	expectLines(t, got, map[int]string{
		14: `h.t = time.NewTicker(time.Minute)`,
		20: `case <-time.After(2 * time.Second):`,
	})
}

func TestVTickerShadow(t *testing.T) {
	src := `package p

import tm "time"

type fake struct{}

func (fake) NewTicker(int) int { return 0 }

func f() {
	_ = tm.NewTicker(tm.Second)
	time := fake{}
	_ = time.NewTicker(1)
}
`
	got, _ := rewrite(t, src, "vticker")
	expectLines(t, got, map[int]string{
		10: `_ = verifkit.NewTicker(tm.Second)`,
		12: `_ = time.NewTicker(1)`,
		14: `var _ = tm.Now`,
	})
}
