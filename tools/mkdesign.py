#!/usr/bin/env python3
"""Fills the generated tables of DESIGN.md section 10 from known_findings.json, seeded/ and evidence/."""
import os, re, subprocess
V = os.path.dirname(os.path.dirname(os.path.abspath(__file__)))
out = subprocess.run(["python3", os.path.join(V, "tools", "mkreport.py")], capture_output=True, text=True).stdout
parts = re.split(r"^### .*$", out, flags=re.M)
tabs = {"findings": parts[1].strip(), "seeded": parts[2].strip(), "evidence": parts[3].strip()}
p = os.path.join(V, "DESIGN.md")
s = open(p).read()
for k, v in tabs.items():
    s = re.sub(r"(<!-- BEGIN GENERATED %s -->).*?(<!-- END GENERATED %s -->)" % (k, k), lambda m: m.group(1) + "\n" + v + "\n" + m.group(2), s, flags=re.S)
open(p, "w").write(s)
print("DESIGN.md tables updated")
