#!/usr/bin/env python3
"""Regenerates /verif/MANIFEST.json from harness/*/spec.json (single source of truth)."""
import glob, json, os
V = os.path.dirname(os.path.dirname(os.path.abspath(__file__)))
props = [json.loads(l)["id"] for l in open(os.path.join(V, "properties.jsonl"))]
pending = json.load(open(os.path.join(V, "tools", "not_applicable.json")))
checks, na, served = [], [], []
integrated = set(open(os.path.join(V, "tools", "integrated.txt")).read().split())
for pid in props:
    sp = os.path.join(V, "harness", pid.lower(), "spec.json")
    if os.path.exists(sp) and json.load(open(sp)).get("registered", False) and pid in integrated:
        s = json.load(open(sp))
        served.append(pid)
        checks.append({
            "property_id": pid,
            "quick_cmd": "./check %s quick" % pid,
            "thorough_cmd": "./check %s thorough" % pid,
            "evidence_file": "/verif/evidence/%s.json" % pid,
            "replay_cmd_template": "./check replay {path}",
            "engine": "check",
            "level_claimed": {"category": s.get("level", "exploration"), "text": s["level_text"], "design_ref": "DESIGN.md section " + s.get("design_ref", "5")},
            "level_note": s["level_note"],
            "technique": s["technique"],
        })
    else:
        na.append({"property_id": pid, "reason": pending.get(pid, "harness under construction: its fixes are not yet integrated into /repo; see DESIGN.md section 5 for the monitor")})
m = {
    "version": 1,
    "setup_cmd": "./check setup",
    "hooks": {
        "guard": "verif",
        "enable": "no hook lives in /repo: ./check generates instrumented copies of the current sources (yield points, virtual clock, os shim, SMTPError observer) and adds harness packages (all '//go:build verif') through `go test -c -tags verif -overlay=<generated>.json -modfile=<copy of go.mod + verifkit>` at check time",
        "baseline_off_cmd": "cd /repo && go test -mod=mod -json -vet=off -count=1 -timeout 25m ./...",
        "source_commits": [],
        "add_only": True,
    },
    "engines": [{"name": "check", "path": "/verif/check", "serves_properties": served,
                 "kind_free_text": "python driver: instruments + builds the current /repo tree with go build -overlay, runs the harness test binary in sharded child processes (race detector on for concurrent workloads), merges monitor results, matches known findings, writes evidence"}],
    "checks": checks,
    "not_applicable": na,
    "notes": "Technique family: runtime monitoring and sanitizers. Verdicts are 'held on the executions described in the evidence file'. known_findings.json lists defects fixed in /repo ('fix:' commits) and defects recorded as known.",
}
json.dump(m, open(os.path.join(V, "MANIFEST.json"), "w"), indent=1)
print("claimed:", served, "not_applicable:", [x["property_id"] for x in na])
