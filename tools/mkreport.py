#!/usr/bin/env python3
"""Prints the generated tables of DESIGN.md section 10 (findings, seeded changes, evidence summary)."""
import glob, json, os
V = os.path.dirname(os.path.dirname(os.path.abspath(__file__)))
k = json.load(open(os.path.join(V, "known_findings.json")))["findings"]
print("### Findings (known_findings.json)\n")
print("| property | status | commit | what failed |")
print("|---|---|---|---|")
for f in sorted(k, key=lambda f: (f["property"], f["status"], f.get("commit", ""))):
    w = f["what"]
    w = w.split(" ", 3)[3] if w.startswith("fixed: ") else w
    print("| %s | %s | %s | %s |" % (f["property"], f["status"], f.get("commit", "-"), w.replace("|", "\\|")))
print("\n### Seeded changes (seeded/*/meta.json)\n")
print("| id | change | needs to manifest | result of `./check <prop> quick` |")
print("|---|---|---|---|")
for p in sorted(glob.glob(os.path.join(V, "seeded", "*", "meta.json"))):
    m = json.load(open(p))
    d = m.get("detected_by", {})
    print("| %s | %s | %s | %s%s |" % (os.path.basename(os.path.dirname(p)), m.get("title", "").replace("|", "/"), m.get("needs_to_manifest", "").replace("|", "/").replace("\n", " ")[:220], d.get("result", "?"), (" — " + d["note"][:200]) if d.get("note") else ""))
print("\n### Last evidence per check\n")
print("| check | tier | evaluations | distinct non-trivial | wall s |")
print("|---|---|---|---|---|")
for p in sorted(glob.glob(os.path.join(V, "evidence", "C*.json"))):
    e = json.load(open(p)); c = e["coverage"]
    if e["property_id"] == "C00": continue
    print("| %s | %s | %d | %d | %.0f |" % (e["property_id"], e["tier"], c["evaluations"], c["distinct_nontrivial"], e["wall_s"]))
