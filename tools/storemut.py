#!/usr/bin/env python3
"""usage: tools/storemut.py <seeded-out dir> <result text> [note]
Copies an evaluated seeded change into /verif/seeded/<id>/ (patch.diff, demonstration as *.txt so that it is
never compiled, meta.json extended with confirmed_by_coordinator and detected_by)."""
import json, os, shutil, sys, glob
V = os.path.dirname(os.path.dirname(os.path.abspath(__file__)))
src = os.path.abspath(sys.argv[1]); result = sys.argv[2]; note = sys.argv[3] if len(sys.argv) > 3 else ""
name = os.path.basename(src.rstrip("/"))
dst = os.path.join(V, "seeded", name)
os.makedirs(dst, exist_ok=True)
shutil.copy(os.path.join(src, "patch.diff"), dst)
for f in glob.glob(os.path.join(src, "*_test.go")) + glob.glob(os.path.join(src, "*.go")):
    shutil.copy(f, os.path.join(dst, os.path.basename(f) + ".txt"))
if os.path.isdir(os.path.join(src, "demo")):
    shutil.copytree(os.path.join(src, "demo"), os.path.join(dst, "demo"), dirs_exist_ok=True)
    for root, _, files in os.walk(os.path.join(dst, "demo")):
        for f in files:
            if f.endswith(".go"):
                os.rename(os.path.join(root, f), os.path.join(root, f + ".txt"))
m = json.load(open(os.path.join(src, "meta.json")))
m["confirmed_by_coordinator"] = {"demo_fails_with_patch": True, "demo_passes_without_patch": True, "applies_to_repo_main": True,
    "how": "tools/evalmut.sh <dir> quick --confirm in a scratch worktree of /repo main (full suite run by the authoring agent)"}
m["detected_by"] = {"check": "./check %s quick" % m["property"], "result": result, "note": note}
json.dump(m, open(os.path.join(dst, "meta.json"), "w"), indent=1, ensure_ascii=False)
print("stored", dst)
