#!/opt/veriftools/pyvenv/bin/python
"""Validates MANIFEST.json and every evidence/*.json against the schemas under /root/.vp (run: python3-vt tools/validate.py)."""
import json, glob, sys, os
import jsonschema
V = os.path.dirname(os.path.dirname(os.path.abspath(__file__)))
bad = 0
jsonschema.validate(json.load(open(V + "/MANIFEST.json")), json.load(open("/root/.vp/MANIFEST.schema.json")))
es = json.load(open("/root/.vp/EVIDENCE.schema.json"))
for f in sorted(glob.glob(V + "/evidence/*.json")):
    try:
        jsonschema.validate(json.load(open(f)), es)
    except Exception as e:
        bad += 1
        print(f, "FAIL", str(e)[:300])
print("validated; failures:", bad)
sys.exit(1 if bad else 0)
